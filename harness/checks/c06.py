"""C06 - Composition implements quantum mechanics and is associative.

Everything the oracles compare against is computed at the matrix level (density matrices, Kraus operators,
POVM elements) with numpy / harness.refmodel only.  quara objects are built from the stacked real vectors of those
matrices in the reference basis and the returned objects are read back through their public arrays.
"""
import math

import numpy as np
from hypothesis import strategies as st

from harness import build, gen
from harness import refmodel as rm

RULE = (
    "A quarter of the pairwise cases use hand-rotated orthonormal Hermitian bases (identity kept / all elements mixed / identity rotated with one element; both basis classes; measurement processes identity-first only) - harness/covar.py. "
    "Operands are physical by construction (spectral / Naimark / Stinespring recipes from Hypothesis-drawn Ginibre arrays: "
    "complex, non-commuting, rank-1 to full rank), shapes 1q / qutrit / 2q, measurement factors with different outcome "
    "counts (2..4, multi-dimensional instrument shapes included).  pairwise: every supported ordered type pair of "
    "compose_qoperations (args and list call forms) against the matrix-level model, with three probability classes built on "
    "purpose: generic, exactly zero (state kernel vector aligned with a rank-1 element / Kraus operator) and 'tiny' "
    "(c*eps in [2e-12,2e-9], i.e. inside the documented zero thresholds 1e-13 / eps_zero=1e-8).  instrument_povm: "
    "MProcess.to_povm and Povm.generate_mprocess modes 0/1/2 (generic, rank-deficient, exactly and numerically degenerate "
    "spectra) against the defining Kraus formulas, plus the documented ValueErrors.  bracketing: time-ordered chains "
    "state,(gate|mprocess)*,[povm] of length 2..5, ALL bracketings (Catalan <= 14) as nested two-argument calls plus the "
    "flat / list calls, each compared with the model tensor p(x1..xk,y)=Tr E_y M_xk..M_x1 rho in C order and with the "
    "normalised post-measurement states.  closure: operands and results built with is_physicality_required=True, result "
    "re-judged from its arrays by the model; mismatched systems / unsupported pairs / fewer than two arguments raise.  "
    "Non-trivial = at least two measurement factors with different outcome counts, or a non-commuting operand pair "
    "(||[A,B]||_F > 1e-3), or a threshold-class outcome (zero / tiny)."
)
ASSUMPTIONS = [
    "time order: compose_qoperations(a, b, ..., z) applies z first (docstring: computed from tail to head; Gate,Gate -> a.hs @ b.hs)",
    "outcome labelling: earlier measurement = slower (major) index, C order, as reported by the shape of every result "
    "that carries one (StateEnsemble / MultinomialDistribution / MProcess); a Povm carries no shape so only the flat order is compared",
    "zero thresholds are part of the contract: a joint probability below eps_zero=1e-8 is reported as exactly 0 with the zero "
    "placeholder state and the remaining probabilities renormalised; verdicts are asserted only when no model probability lies "
    "in the band (3e-9, 3e-8), and probabilities are compared up to 4x the truncated mass (so the renormalisation style is not asserted)",
    "post-measurement states are compared with tolerance algebraic/min(1,p) (division by p amplifies rounding); their trace is "
    "compared with the plain algebraic tolerance",
    "Povm.generate_mprocess mode 0 involves a matrix square root (Hoelder-1/2 at a zero eigenvalue, observed error 4e-8): tolerance 1e-5 when an "
    "element has an eigenvalue below 1e-3, algebraic otherwise; mode 1 groups eigenvalues closer than 1e-9 and is only judged "
    "when distinct groups are >= 1e-4 apart",
]
TECHNIQUE = (
    "property-based testing (Hypothesis) of compose_qoperations against an independent matrix-level reference model; "
    "program-as-data chains with exhaustive enumeration of all bracketings; constructed threshold-class inputs"
)
LEVEL_TEXT = (
    "Generated-input search: thousands of constructed operand pairs (all 12 supported type pairs, three shapes, asymmetric "
    "outcome counts, non-commuting complex operands, zero / sub-threshold outcome classes) and hundreds of chains with every "
    "bracketing, each compared with the textbook formulas evaluated by an independent numpy model.  It cannot prove absence; "
    "it removes the symmetry (commuting operands, equal outcome counts) under which a reversed time order or a transposed "
    "outcome layout is invisible."
)
LEVEL_NOTE = (
    "Trusted: numpy LAPACK, harness/refmodel.py, the reference basis (normalised Pauli / Gell-Mann, Kronecker order), the "
    "time-order and labelling conventions stated in the assumptions, and the threshold band rule."
)

EPS_ZERO = 1e-8
BAND = (3e-9, 3e-8)
SHAPE_POOL = ("1q", "1q", "qutrit", "2q")


# =============================================================================== matrix-level model
def _d(shape):
    return gen.dim_of(shape)


_CSYS = {}


def _c_sys(shape):
    """one CompositeSystem per shape and process: its lazily computed basis tables (pure functions of the basis,
    ~0.15 s for two qubits) dominate the run time otherwise.  Rejection cases build fresh systems."""
    if shape not in _CSYS:
        _CSYS[shape] = build.c_sys_for(shape)
    return _CSYS[shape]


def _unitary(raw_u, d):
    return rm.unitary_from_raw(raw_u, d)


def state_matrix(case):
    d = _d(case["shape"])
    if case.get("kind") == "aligned":
        u = _unitary(case["raw_u"], d)
        eps = float(case["eps"])
        rest = rm.simplex_from_raw(case["raw_p"][: d - 1])
        p = np.concatenate([[eps], (1.0 - eps) * rest])
        return rm.herm((u * p) @ u.conj().T)
    return gen.state_matrix(case)


def _align_vectors(raw_v, d):
    u = _unitary(raw_v, d)
    return u[:, 0], u[:, d - 1]


def _shrink_sqrt(v, c):
    """S = sqrt(I - c |v><v|)."""
    d = v.shape[0]
    return np.eye(d, dtype=complex) - (1.0 - math.sqrt(1.0 - c)) * np.outer(v, v.conj())


def povm_matrices(case):
    d = _d(case["shape"])
    k = case.get("kind")
    m = case["m"]
    if k == "aligned":
        v, _ = _align_vectors(case["raw_v"], d)
        c = float(case["c"])
        s = _shrink_sqrt(v, c)
        g = [np.eye(d, dtype=complex)] if m == 2 else rm.povm_from_raw(case["raw"], d, m - 1, "naimark")
        rest = [rm.herm(s @ e @ s) for e in g]
        pos = case["pos"] % m
        return rest[:pos] + [c * np.outer(v, v.conj())] + rest[pos:]
    if k == "spectral2":
        u = _unitary(case["raw"], d)
        lam = np.asarray(case["lam"][:d], dtype=float)
        e0 = rm.herm((u * lam) @ u.conj().T)
        return [e0, np.eye(d, dtype=complex) - e0]
    if k == "diag":
        # column-stochastic table: t[x, i] = weight of outcome x on |i><i|
        t = np.abs(np.round(np.asarray(case["raw"][: m * d], dtype=float).reshape(m, d) * 64) / 64) + 0.0625
        if case.get("tie"):
            t[:, 1] = t[:, 0]
        t = t / t.sum(axis=0, keepdims=True)
        return [np.diag(t[x]).astype(complex) for x in range(m)]
    return gen.povm_matrices(case)


def mprocess_kraus(case):
    d = _d(case["shape"])
    if case.get("kind") == "aligned":
        v, w = _align_vectors(case["raw_v"], d)
        c = float(case["c"])
        s = _shrink_sqrt(v, c)
        counts = case["counts"]
        m = case["m"]
        pos = case["pos"] % m
        others = counts[:pos] + counts[pos + 1:]
        ks = rm.instrument_from_raw(case["raw"], d, others)
        rest = [[k @ s for k in kx] for kx in ks]
        return rest[:pos] + [[math.sqrt(c) * np.outer(w, v.conj())]] + rest[pos:]
    return gen.mprocess_kraus(case)


def model(case):
    """case -> matrix-level operand.

    An ensemble is a list of unnormalised sig_i (Tr sig_i = joint probability) plus div_i = the product of the
    conditional probabilities a step-by-step evaluation divides by to normalise the post-state (1 for an input
    ensemble): it only scales the comparison tolerance of that post-state."""
    t = case["type"]
    if t == "state":
        return {"t": "state", "rho": state_matrix(case)}
    if t == "povm":
        return {"t": "povm", "E": povm_matrices(case)}
    if t == "gate":
        return {"t": "gate", "K": gen.gate_kraus(case)}
    if t == "mprocess":
        ks = mprocess_kraus(case)
        shp = tuple(case.get("mshape") or [len(ks)])
        return {"t": "mprocess", "K": ks, "shape": shp}
    if t == "ensemble":
        d = _d(case["shape"])
        k = len(case["states"])
        q = rm.simplex_from_raw(case["raw_p"][:k], case["zero_mask"][:k])
        sig = []
        for qi, sc in zip(q, case["states"]):
            sig.append(qi * state_matrix(sc) if qi > 0 else np.zeros((d, d), dtype=complex))
        return {"t": "ensemble", "sig": sig, "shape": tuple(case["ens_shape"]), "q_in": q,
                "div": np.where(q > 0, 1.0, 0.0)}
    raise ValueError(t)


def m_compose(a, b):
    """model of compose_qoperations(a, b): b acts first.  Pure quantum mechanics, no thresholds."""
    ta, tb = a["t"], b["t"]
    if ta == "gate" and tb == "gate":
        return {"t": "gate", "K": [x @ y for x in a["K"] for y in b["K"]]}
    if ta == "gate" and tb == "mprocess":
        return {"t": "mprocess", "K": [[g @ k for g in a["K"] for k in kx] for kx in b["K"]], "shape": b["shape"]}
    if ta == "mprocess" and tb == "gate":
        return {"t": "mprocess", "K": [[k @ g for k in kx for g in b["K"]] for kx in a["K"]], "shape": a["shape"]}
    if ta == "mprocess" and tb == "mprocess":
        # earlier measurement (b) is the major index
        ks = [[ka @ kb for ka in kxa for kb in kxb] for kxb in b["K"] for kxa in a["K"]]
        return {"t": "mprocess", "K": ks, "shape": tuple(b["shape"]) + tuple(a["shape"])}
    if ta == "gate" and tb == "state":
        return {"t": "state", "rho": rm.apply_kraus(a["K"], b["rho"])}
    if ta == "gate" and tb == "ensemble":
        return {"t": "ensemble", "sig": [rm.apply_kraus(a["K"], s) for s in b["sig"]], "shape": b["shape"], "div": b["div"]}
    if ta == "mprocess" and tb == "state":
        sig = [rm.apply_kraus(kx, b["rho"]) for kx in a["K"]]
        return {"t": "ensemble", "sig": sig, "shape": tuple(a["shape"]), "div": np.array([_tr(s) for s in sig])}
    if ta == "mprocess" and tb == "ensemble":
        sig, div = [], []
        for s, dv in zip(b["sig"], b["div"]):
            ts = _tr(s)
            for kx in a["K"]:
                o = rm.apply_kraus(kx, s)
                sig.append(o)
                div.append(dv * _tr(o) / ts if ts > 0 else 0.0)
        return {"t": "ensemble", "sig": sig, "shape": tuple(b["shape"]) + tuple(a["shape"]), "div": np.array(div)}
    if ta == "povm" and tb == "gate":
        return {"t": "povm", "E": [rm.heisenberg(b["K"], e) for e in a["E"]]}
    if ta == "povm" and tb == "mprocess":
        return {"t": "povm", "E": [rm.heisenberg(kx, e) for kx in b["K"] for e in a["E"]]}
    if ta == "povm" and tb == "state":
        p = np.array([float(np.real(np.trace(e @ b["rho"]))) for e in a["E"]])
        return {"t": "dist", "p": p, "shape": (len(a["E"]),)}
    if ta == "povm" and tb == "ensemble":
        p = np.array([float(np.real(np.trace(e @ s))) for s in b["sig"] for e in a["E"]])
        return {"t": "dist", "p": p, "shape": tuple(b["shape"]) + (len(a["E"]),)}
    raise TypeError((ta, tb))


def _tr(m):
    return float(np.real(np.trace(m)))


def joint_probs(mod):
    if mod["t"] == "dist":
        return np.asarray(mod["p"], dtype=float)
    if mod["t"] == "ensemble":
        return np.array([float(np.real(np.trace(s))) for s in mod["sig"]])
    return None


def threshold(joint):
    """documented zero thresholds applied to model probabilities -> (expected, zero_mask, truncated_mass, in_band)."""
    joint = np.asarray(joint, dtype=float)
    band = bool(np.any((joint > BAND[0]) & (joint < BAND[1])))
    zero = joint < EPS_ZERO
    kept = np.where(zero, 0.0, joint)
    s = float(kept.sum())
    trunc = float(np.sum(np.abs(joint[zero])))
    return (kept / s if s > 0 else kept), zero, trunc, band


def rep_matrices(mod):
    t = mod["t"]
    if t == "state":
        return [mod["rho"]]
    if t == "povm":
        return list(mod["E"])
    if t == "gate":
        return list(mod["K"])
    if t == "mprocess":
        return [k for kx in mod["K"] for k in kx]
    if t == "ensemble":
        return [s for s in mod["sig"] if np.max(np.abs(s)) > 0]
    return []


def noncommuting(a, b):
    best = 0.0
    for x in rep_matrices(a)[:8]:
        for y in rep_matrices(b)[:8]:
            best = max(best, rm.commutator_norm(x, y))
    return best > 1e-3


def n_outcomes(mod):
    if mod["t"] == "povm":
        return len(mod["E"])
    if mod["t"] == "mprocess":
        return len(mod["K"])
    if mod["t"] == "ensemble":
        return len(mod["sig"])
    return None


# =============================================================================== model -> quara
def stacked_of_model(mod, basis):
    t = mod["t"]
    if t == "state":
        return np.real(rm.vec(basis, mod["rho"]))
    if t == "povm":
        return np.concatenate([np.real(rm.vec(basis, e)) for e in mod["E"]])
    if t == "gate":
        return np.real(rm.hs_from_kraus(basis, mod["K"])).reshape(-1)
    if t == "mprocess":
        return np.concatenate([np.real(rm.hs_from_kraus(basis, kx)).reshape(-1) for kx in mod["K"]])
    raise ValueError(t)


def q_build(mod, c_sys, basis, ipr):
    from quara.objects.multinomial_distribution import MultinomialDistribution
    from quara.objects.state import State
    from quara.objects.state_ensemble import StateEnsemble

    t = mod["t"]
    if t == "ensemble":
        q = np.asarray(mod["q_in"], dtype=np.float64)
        states = []
        for qi, s in zip(q, mod["sig"]):
            if qi > 0:
                states.append(State(c_sys, np.ascontiguousarray(np.real(rm.vec(basis, s / qi))), is_physicality_required=ipr))
            else:
                states.append(State(c_sys, np.zeros(len(basis), dtype=np.float64), is_physicality_required=False))
        from harness import reps

        weights = q.copy()
        if reps._on() and reps.int_valued(q) and reps.pick(("ensw", q.tobytes(), len(basis)), 2) == 0:
            # integer-valued weights handed over as Python ints (the way the library's own typical ensembles write them)
            weights = [int(v) for v in q]
        return StateEnsemble(states, MultinomialDistribution(weights, shape=tuple(mod["shape"])))
    kw = {"is_physicality_required": ipr}
    m = None
    if t == "mprocess":
        kw["shape"] = tuple(mod["shape"])
        m = len(mod["K"])
    if t == "povm":
        m = len(mod["E"])
    return build.make(c_sys, t, stacked_of_model(mod, basis), m=m, **kw)


def _tname(obj):
    return type(obj).__name__


# =============================================================================== comparison of a result with the model
def is_coarsening(reported, dims):
    """reported shape merges consecutive axes of dims (so both flatten identically in C order)."""
    reported = [int(x) for x in reported]
    dims = [int(x) for x in dims]
    i = 0
    for r in reported:
        acc = 1
        if r == 1 and (i >= len(dims) or dims[i] != 1):
            continue
        while i < len(dims) and acc < r:
            acc *= dims[i]
            i += 1
        if acc != r:
            return False
    return i == len(dims)


def compare(ctx, res, exp, basis, d, oid, tol_scale=1.0, shape_mode="equal"):
    """res (quara) against exp (model).  Returns False when a known finding swallowed a structural mismatch."""
    alg = rm.algebraic_tol(d, 1.0) * tol_scale
    n = d * d
    t = exp["t"]
    if t == "state":
        if not ctx.check(_tname(res) == "State", oid + ":type", f"got {_tname(res)}"):
            return False
        return ctx.close(np.asarray(res.vec), np.real(rm.vec(basis, exp["rho"])), alg, oid + ":state")
    if t == "gate":
        if not ctx.check(_tname(res) == "Gate", oid + ":type", f"got {_tname(res)}"):
            return False
        return ctx.close(np.asarray(res.hs), np.real(rm.hs_from_kraus(basis, exp["K"])), alg, oid + ":hs")
    if t == "povm":
        if not ctx.check(_tname(res) == "Povm", oid + ":type", f"got {_tname(res)}"):
            return False
        if not ctx.equal(len(res.vecs), len(exp["E"]), oid + ":num_outcomes"):
            return False
        ref = np.array([np.real(rm.vec(basis, e)) for e in exp["E"]])
        return ctx.close(np.array([np.asarray(v) for v in res.vecs]), ref, alg, oid + ":vecs")
    if t == "mprocess":
        if not ctx.check(_tname(res) == "MProcess", oid + ":type", f"got {_tname(res)}"):
            return False
        if not ctx.equal(len(res.hss), len(exp["K"]), oid + ":num_outcomes"):
            return False
        ok = _shape_ok(ctx, res.shape, exp["shape"], oid, shape_mode)
        ref = np.array([np.real(rm.hs_from_kraus(basis, kx)) for kx in exp["K"]])
        return ctx.close(np.array([np.asarray(h) for h in res.hss]), ref, alg, oid + ":hss") and ok
    joint = joint_probs(exp)
    e_ps, zero, trunc, band = threshold(joint)
    if band:
        ctx.skip("threshold-band")
        return True
    ptol = alg + 4.0 * trunc
    if t == "dist":
        if not ctx.check(_tname(res) == "MultinomialDistribution", oid + ":type", f"got {_tname(res)}"):
            return False
        return _compare_ps(ctx, res.ps, res.shape, e_ps, zero, exp["shape"], ptol, oid, shape_mode)
    if t == "ensemble":
        if not ctx.check(_tname(res) == "StateEnsemble", oid + ":type", f"got {_tname(res)}"):
            return False
        ok = _compare_ps(ctx, res.prob_dist.ps, res.prob_dist.shape, e_ps, zero, exp["shape"], ptol, oid, shape_mode)
        if not ctx.equal(len(res.states), len(exp["sig"]), oid + ":num_states"):
            return False
        for i, (s, sig) in enumerate(zip(res.states, exp["sig"])):
            v = np.asarray(s.vec)
            if v.shape != (n,):
                return ctx.check(False, oid + ":post_state", f"state {i} has shape {v.shape}")
            if zero[i]:
                ok = ctx.check(bool(np.all(v == 0)), oid + ":zero_placeholder",
                               f"outcome {i} has model probability {joint[i]:.3e} but a non-zero state") and ok
            else:
                p = float(joint[i])
                dv = float(exp["div"][i])
                ok = ctx.close(float(np.real(np.trace(rm.unvec(basis, v)))), 1.0, alg, oid + ":post_state_trace", f"outcome {i}") and ok
                ok = ctx.close(v, np.real(rm.vec(basis, sig / p)), alg / min(1.0, dv), oid + ":post_state",
                               f"outcome {i} p={p:.3e}") and ok
        return ok
    raise ValueError(t)


def _shape_ok(ctx, reported, expected, oid, shape_mode):
    try:
        rep = tuple(int(x) for x in reported)
    except Exception:
        return ctx.check(False, oid + ":shape", f"shape {reported!r}")
    if shape_mode == "equal":
        return ctx.equal(rep, tuple(int(x) for x in expected), oid + ":shape")
    return ctx.check(is_coarsening(rep, expected), oid + ":shape",
                     f"reported shape {rep} is not a C-order coarsening of the time-ordered outcome counts {tuple(expected)}")


def _compare_ps(ctx, ps, shape, e_ps, zero, e_shape, ptol, oid, shape_mode):
    ps = np.asarray(ps)
    # (an ensemble given integer weights may report them as integers: real numbers either way)
    if not ctx.check(ps.ndim == 1 and ps.shape == e_ps.shape and ps.dtype.kind in "fiu", oid + ":ps_layout",
                     f"ps shape {ps.shape} dtype {ps.dtype}, model {e_ps.shape}"):
        return False
    ok = _shape_ok(ctx, shape, e_shape, oid, shape_mode)
    ok = ctx.check(bool(np.all(ps >= 0)), oid + ":nonnegative", f"min {ps.min():.3e}") and ok
    if e_ps.sum() > 0:
        ok = ctx.close(float(ps.sum()), 1.0, 1e-12, oid + ":sums_to_one") and ok
    ok = ctx.check(bool(np.all(ps[zero] == 0)), oid + ":zero_threshold",
                   lambda: f"sub-threshold outcomes reported as {ps[zero]}") and ok
    ok = ctx.close(ps, e_ps, ptol, oid + ":probabilities") and ok
    return ok


def min_kept_prob(mod):
    """smallest probability a kept post-state was divided by (conditioning of the normalisation)."""
    if mod["t"] != "ensemble":
        return 1.0
    j = joint_probs(mod)
    kept = np.asarray(mod["div"])[j >= EPS_ZERO]
    return float(kept.min()) if kept.size else 1.0


# =============================================================================== strategies
RAW_KEYS = ("raw", "raw_u", "raw_p", "raw_v")


def _densify(obj, phase):
    """Hypothesis float arrays are mostly 'fill' values (many equal entries => rank-deficient, commuting operands).
    About three quarters of the cases add a fixed dense pattern (a deterministic function of one drawn phase and the entry index,
    computed at generation time, so the case stays plain data) to every Ginibre array.  Equal arrays stay equal
    (the aligned operands share raw_v == raw_u)."""
    if isinstance(obj, dict):
        return {k: ([float(x + 0.6 * math.sin(phase + 2.399963 * i + 0.37 * len(v))) for i, x in enumerate(v)]
                    if k in RAW_KEYS and isinstance(v, list) else _densify(v, phase)) for k, v in obj.items()}
    if isinstance(obj, list):
        return [_densify(v, phase) for v in obj]
    return obj


def _dense(strategy):
    @st.composite
    def s(draw):
        case = draw(strategy)
        if draw(st.booleans()) or draw(st.booleans()):
            case = _densify(case, draw(st.floats(0.0, 6.25)))
            case["dense"] = True
        return case

    return s()


def _mp_case(shape, m, max_per=2, multi_shape=True):
    d = _d(shape)

    @st.composite
    def s(draw):
        counts = draw(st.lists(st.integers(1, max_per), min_size=m, max_size=m))
        case = {"type": "mprocess", "shape": shape, "m": m, "counts": counts, "raw": draw(gen.raw(2 * d * sum(counts) * d))}
        if multi_shape and m == 4 and draw(st.booleans()):
            case["mshape"] = [2, 2]
        return case

    return s()


def _povm_case(shape, m):
    return gen.povm_case((shape,), (m, m))


def _gate_case(shape):
    return gen.gate_case((shape,), max_rank=3)


@st.composite
def _ensemble_case(draw, shape):
    ens_shape = draw(st.sampled_from([[2], [3], [2, 2], [2, 3], [3, 2], [1], [1, 1]]))  # incl. the certain ensemble
    k = int(np.prod(ens_shape))
    zm = [False] * k
    if draw(st.integers(0, 3)) == 0:
        zm[draw(st.integers(0, k - 1))] = True
    states = [draw(gen.state_case((shape,))) for _ in range(k)]
    return {"type": "ensemble", "shape": shape, "ens_shape": ens_shape, "states": states,
            "raw_p": draw(gen.raw(k)), "zero_mask": zm}


@st.composite
def _aligned_state(draw, shape, cls):
    d = _d(shape)
    eps = 0.0 if cls == "zero" else draw(gen.log_uniform(1e-11, 2e-9))
    return {"type": "state", "shape": shape, "kind": "aligned", "raw_u": draw(gen.raw(2 * d * d)),
            "raw_p": draw(gen.raw(d)), "eps": eps}


@st.composite
def _aligned_povm(draw, shape, m, raw_v):
    d = _d(shape)
    return {"type": "povm", "shape": shape, "kind": "aligned", "m": m, "raw_v": raw_v, "pos": draw(st.integers(0, m - 1)),
            "c": draw(st.floats(0.2, 0.9)), "raw": draw(gen.raw(2 * d * max(m - 1, 1) * d))}


@st.composite
def _aligned_mprocess(draw, shape, m, raw_v):
    d = _d(shape)
    counts = draw(st.lists(st.integers(1, 2), min_size=m, max_size=m))
    pos = draw(st.integers(0, m - 1))
    counts[pos] = 1
    r = sum(counts) - 1
    return {"type": "mprocess", "shape": shape, "kind": "aligned", "m": m, "counts": counts, "pos": pos, "raw_v": raw_v,
            "c": draw(st.floats(0.2, 0.9)), "raw": draw(gen.raw(2 * d * r * d))}


def _two_counts(draw):
    ma = draw(st.integers(2, 4))
    mb = draw(st.integers(2, 4))
    if ma == mb and draw(st.integers(0, 4)) > 0:
        mb = 2 + (ma - 2 + 1 + draw(st.integers(0, 1))) % 3
    return ma, mb


PAIRS = (
    "gate_gate", "gate_mprocess", "mprocess_gate", "mprocess_mprocess", "gate_state", "gate_ensemble",
    "mprocess_state", "mprocess_ensemble", "povm_gate", "povm_mprocess", "povm_state", "povm_ensemble",
)
THRESHOLD_PAIRS = ("mprocess_state", "mprocess_ensemble", "povm_state", "povm_ensemble")


@st.composite
def pair_case(draw, tier, pairs=PAIRS, force_ipr=None):
    pair = draw(st.sampled_from(pairs))
    shape = draw(st.sampled_from(SHAPE_POOL))
    ta, tb = pair.split("_")
    ma, mb = _two_counts(draw)
    thr = "none"
    if pair in THRESHOLD_PAIRS:
        thr = draw(st.sampled_from(["none", "none", "zero", "tiny"]))
    # right operand (acts first)
    if tb == "state":
        b = draw(gen.state_case((shape,))) if thr == "none" else draw(_aligned_state(shape, thr))
    elif tb == "ensemble":
        b = draw(_ensemble_case(shape))
        if thr != "none":
            b["states"][0] = draw(_aligned_state(shape, thr))
            b["zero_mask"][0] = False
    elif tb == "gate":
        b = draw(_gate_case(shape))
    else:
        b = draw(_mp_case(shape, mb))
    # left operand
    if ta == "gate":
        a = draw(_gate_case(shape))
    elif ta == "povm":
        if thr == "none":
            a = draw(_povm_case(shape, ma))
        else:
            a = draw(_aligned_povm(shape, ma, (b if tb == "state" else b["states"][0])["raw_u"]))
    else:
        if thr == "none":
            a = draw(_mp_case(shape, ma))
        else:
            a = draw(_aligned_mprocess(shape, ma, (b if tb == "state" else b["states"][0])["raw_u"]))
    case = {"pair": pair, "shape": shape, "a": a, "b": b, "thr": thr,
            "ipr": draw(st.booleans()) if force_ipr is None else force_ipr,
            "call": draw(st.sampled_from(["args", "list", "mixed"]))}
    if pair == "mprocess_state" and thr == "none" and draw(st.integers(0, 5)) == 0:
        case["sampling_seed"] = draw(st.integers(0, 2 ** 31 - 1))
    if draw(st.integers(0, 3)) == 0:
        # the same operators over a hand-rotated (orthonormal, Hermitian, identity-first) basis: harness/covar.py
        case["rot"] = draw(gen.raw(64))
        if "mprocess" not in pair:
            # measurement processes require an identity-first basis (documented rejection); the other types accept any
            # orthonormal Hermitian basis, including one whose first element is not proportional to the identity
            case["rot_mode"] = draw(st.sampled_from(["keep_first", "full", "givens0"]))
    return case


def pairwise_strategy(tier):
    return _dense(pair_case(tier))


# =============================================================================== facet 1: pairwise
def is_mpmp_pair(case):
    """known-finding predicate (C06-F6): the direct MProcess x MProcess composition."""
    return case.get("pair") == "mprocess_mprocess"


def _call(compose, qa, qb, form):
    if form == "list":
        return compose([qa, qb])
    if form == "mixed":
        return compose([qa], qb)
    return compose(qa, qb)


def _effective_ipr(case, exp):
    """operands/results are validated by quara only when the division by p cannot lift rounding above atol=1e-13."""
    return bool(case.get("ipr")) and min_kept_prob(exp) >= 5e-3


def _label_pair(ctx, case, a, b, exp):
    ctx.label("pair:" + case["pair"], case["shape"], "thr:" + case["thr"], "call:" + case["call"])
    na, nb = n_outcomes(a), n_outcomes(b)
    diff_counts = na is not None and nb is not None and na != nb
    nc = noncommuting(a, b)
    if diff_counts:
        ctx.label("different-outcome-counts")
    if nc:
        ctx.label("non-commuting")
    if a["t"] == "mprocess" and len(a["shape"]) > 1 or b["t"] == "mprocess" and len(b["shape"]) > 1:
        ctx.label("multi-dim-instrument-shape")
    ctx.nontrivial(diff_counts or nc or case["thr"] != "none")


def check_pairwise(case, ctx):
    ctx.label("raw:dense" if case.get("dense") else "raw:hypothesis-sparse")
    from quara.objects.operators import compose_qoperations

    shape = case["shape"]
    d = _d(shape)
    basis = gen.ref_basis(shape)
    c_sys = _c_sys(shape)
    if case.get("rot") is not None:
        from harness import covar

        c_sys, _o, basis = covar.rotated_env(shape, case["rot"], mode=case.get("rot_mode", "keep_first"))
        ctx.label("basis:rotated:" + case.get("rot_mode", "keep_first"))
    a, b = model(case["a"]), model(case["b"])
    exp = m_compose(a, b)
    ipr = _effective_ipr(case, exp)
    ctx.label("ipr:" + str(ipr))
    qa = q_build(a, c_sys, basis, ipr)
    qb = q_build(b, c_sys, basis, ipr)
    _label_pair(ctx, case, a, b, exp)

    if "sampling_seed" in case:
        return _check_sampling(case, ctx, qa, qb, exp, basis, d)

    res = _call(compose_qoperations, qa, qb, case["call"])
    pair = case["pair"]
    if pair == "mprocess_mprocess":
        # oracles that hold whatever the time order is keep their own ids (search continues behind C06-F6)
        if ctx.check(_tname(res) == "MProcess", "mpmp:type"):
            ctx.equal(len(res.hss), len(exp["K"]), "mpmp:num_outcomes")
            # values, layout and shape depend on the time order: one oracle prefix
            compare(ctx, res, exp, basis, d, "mpmp_order")
            tot = sum(np.asarray(h) for h in res.hss)
            e0 = np.zeros(d * d)
            e0[0] = 1.0
            ctx.close(tot[0], e0, rm.algebraic_tol(d), "mpmp:sum_trace_preserving")
        return
    compare(ctx, res, exp, basis, d, pair)
    if exp["t"] in ("dist", "ensemble"):
        j = joint_probs(exp)
        if np.any(j < EPS_ZERO):
            ctx.label("has-truncated-outcome")


def _check_sampling(case, ctx, qa, qb, exp, basis, d):
    """mode_sampling=True: the returned object is one of the post-measurement states of a possible outcome."""
    from quara.objects.operators import compose_qoperations

    ctx.label("sampling-mode")
    qa.set_mode_sampling(True, int(case["sampling_seed"]))
    np.random.seed(int(case["sampling_seed"]) % (2 ** 32))
    try:
        res = compose_qoperations(qa, qb)
    except ValueError as e:
        if "multinomial.rvs" in str(e):  # scipy >= 1.13 rejects |sum p - 1| > eps; environment, not quara
            ctx.skip("scipy-rejects-unnormalised-p")
            return
        raise
    if not ctx.check(_tname(res) == "State", "sampling:type", f"got {_tname(res)}"):
        return
    j = joint_probs(exp)
    if np.any((j > BAND[0]) & (j < BAND[1])):
        ctx.skip("threshold-band")
        return
    v = np.asarray(res.vec)
    alg = rm.algebraic_tol(d)
    hit = False
    for p, sig in zip(j, exp["sig"]):
        if p >= EPS_ZERO and v.shape == (d * d,):
            if np.max(np.abs(v - np.real(rm.vec(basis, sig / p)))) <= alg / min(1.0, p):
                hit = True
    ctx.nontrivial(True)
    ctx.check(hit, "sampling:is_a_post_state", "sampled state is none of the normalised post-measurement states")


# =============================================================================== facet 2: instrument <-> povm
def _eig_groups(e, tol=1e-9):
    """spectral decomposition with eigenvalues closer than tol merged: [(lambda, projector)], min gap between groups."""
    w, v = np.linalg.eigh(rm.herm(e))
    groups = []
    for i, lam in enumerate(w):
        p = np.outer(v[:, i], v[:, i].conj())
        if groups and abs(lam - groups[-1][0][-1]) <= tol:
            groups[-1][0].append(lam)
            groups[-1][1] += p
        else:
            groups.append([[lam], p.copy()])
    lams = [float(np.mean(g[0])) for g in groups]
    gap = min([lams[i + 1] - lams[i] for i in range(len(lams) - 1)], default=1.0)
    within = max((max(g[0]) - min(g[0]) for g in groups), default=0.0)
    return [(lam, g[1]) for lam, g in zip(lams, groups)], gap, within


def mode1_rows_not_columns(case):
    """known-finding predicate (C06-F5).

    Povm.generate_mprocess(mode_backaction=1) pairs eigenvalue i with ROW i of the eigenvector matrix and forms
    v v^T without conjugation; that is the spectral projector only when the matrix LAPACK returns is real and
    symmetric.  Decided from the model matrices without depending on rounding-level tie breaks:
      * an element that is not diagonal in the computational basis -> True (a real symmetric eigenvector matrix of a
        non-diagonal element is an accident of LAPACK's sign convention);
      * a diagonal element diag(a): the eigenvector matrix is the permutation pi that sorts a, rows give pi^-1, so the
        weight a_{pi(pi(k))} lands on |k><k|: True when some sorting permutation (ties within 1e-9 in any order) has
        a_{pi(pi(k))} != a_k."""
    import itertools

    if case.get("sub") != "mode1":
        return False
    for e in povm_matrices(case["povm"]):
        if np.max(np.abs(e - np.diag(np.diag(e)))) > 1e-12:
            return True
        a = np.real(np.diag(e))
        dd = len(a)
        for pi in itertools.permutations(range(dd)):
            if all(a[pi[k]] <= a[pi[k + 1]] + 1e-9 for k in range(dd - 1)):
                if any(abs(a[pi[pi[k]]] - a[k]) > 1e-9 for k in range(dd)):
                    return True
    return False


def has_degenerate_eigenspace(case):
    """known-finding predicate (C06-F5b): mode 1 and some element has a non-zero eigenvalue of multiplicity >= 2
    (eigenvalues closer than 1e-9).  quara groups eigenvalues with `==` on floats, so a degenerate eigenvalue that
    rounding splits by one ulp is decohered in an arbitrary basis of its eigenspace instead of projected."""
    if case.get("sub") != "mode1":
        return False
    for e in povm_matrices(case["povm"]):
        groups, _, _ = _eig_groups(e)
        if any(np.real(np.trace(p)) > 1.5 and lam > 1e-6 for lam, p in groups):
            return True
    return False


@st.composite
def _mode1_povm(draw, shape):
    d = _d(shape)
    kind = draw(st.sampled_from(["gen", "gen", "spectral2", "spectral2", "diag", "trivial"]))
    if kind == "gen":
        return draw(gen.povm_case((shape,), (2, 4)))
    if kind == "trivial":
        return {"type": "povm", "shape": shape, "m": draw(st.integers(2, 4)), "kind": "trivial"}
    if kind == "diag":
        m = draw(st.integers(2, 4))
        return {"type": "povm", "shape": shape, "m": m, "kind": "diag", "raw": draw(gen.raw(m * d)),
                "tie": draw(st.booleans())}
    # spectrum with exact repeats (degenerate eigenspaces, rotated by a generic unitary) or well separated values
    pool = [0.0, 0.125, 0.25, 0.5, 0.625, 0.75, 1.0]
    lam = [draw(st.sampled_from(pool)) for _ in range(d)]
    return {"type": "povm", "shape": shape, "m": 2, "kind": "spectral2", "lam": lam, "raw": draw(gen.raw(2 * d * d))}


@st.composite
def instrument_case(draw, tier):
    sub = draw(st.sampled_from(["to_povm", "mode0", "mode1", "mode1", "mode2", "mode2", "invalid"]))
    shape = draw(st.sampled_from(SHAPE_POOL))
    case = {"sub": sub, "shape": shape, "ipr": draw(st.booleans())}
    if sub == "to_povm":
        case["mp"] = draw(_mp_case(shape, draw(st.integers(2, 4)), max_per=3))
        return case
    if sub == "mode1":
        case["povm"] = draw(_mode1_povm(shape))
    else:
        case["povm"] = draw(gen.povm_case((shape,), (2, 4)))
    m = case["povm"]["m"]
    if sub == "mode2":
        case["as_list"] = draw(st.booleans())
        k = m if case["as_list"] else 1
        case["states"] = [draw(gen.state_case((shape,))) for _ in range(k)]
    if sub == "invalid":
        case["which"] = draw(st.sampled_from(["0+states", "1+states", "2-none", "mode3", "mode-1"]))
        case["states"] = [draw(gen.state_case((shape,)))]
    return case


def check_instrument(case, ctx):
    ctx.label("raw:dense" if case.get("dense") else "raw:hypothesis-sparse")
    shape = case["shape"]
    d = _d(shape)
    n = d * d
    basis = gen.ref_basis(shape)
    c_sys = _c_sys(shape)
    alg = rm.algebraic_tol(d)
    sub = case["sub"]
    ipr = bool(case["ipr"])
    ctx.label("sub:" + sub, shape, "ipr:" + str(ipr))

    if sub == "to_povm":
        mod = model(case["mp"])
        q = q_build(mod, c_sys, basis, ipr)
        p = q.to_povm()
        es = [sum(k.conj().T @ k for k in kx) for kx in mod["K"]]
        compare(ctx, p, {"t": "povm", "E": es}, basis, d, "to_povm")
        counts = case["mp"]["counts"]
        ctx.nontrivial(len(set(counts)) > 1 or any(rm.commutator_norm(es[0], e) > 1e-3 for e in es[1:]))
        return

    pmod = model(case["povm"])
    es = pmod["E"]
    m = len(es)
    eig = [np.linalg.eigvalsh(rm.herm(e)) for e in es]
    lam_min = min(float(w[0]) for w in eig)
    if sub == "mode0" and lam_min < 1e-3 and ipr:
        # the Choi matrix of rho -> S rho S is rank one (boundary of the CP cone); sqrtm noise of 1e-9 at a zero
        # eigenvalue, partly cut by truncate_hs at 1e-13, moves its eigenvalues by ~2e-13, i.e. inside the verdict
        # margin of quara's own atol=1e-13 validation: the instrument is built without that validation and judged
        # by the model with the algorithmic tolerance instead
        ipr = False
        ctx.label("mode0:ipr-dropped-verdict-margin")
    qp = q_build(pmod, c_sys, basis, ipr)
    ctx.label("povm-kind:" + str(case["povm"].get("kind")))

    if sub == "invalid":
        smod = model(case["states"][0])
        qs = q_build(smod, c_sys, basis, ipr)
        w = case["which"]
        ctx.label("invalid:" + w)
        fn = {
            "0+states": lambda: qp.generate_mprocess(0, qs),
            "1+states": lambda: qp.generate_mprocess(1, [qs] * m),
            "2-none": lambda: qp.generate_mprocess(2),
            "mode3": lambda: qp.generate_mprocess(3),
            "mode-1": lambda: qp.generate_mprocess(-1, qs),
        }[w]
        ctx.raises((ValueError,), fn, "generate_mprocess:documented_valueerror", w)
        ctx.nontrivial(True)
        return

    noncomm = any(rm.commutator_norm(es[0], e) > 1e-3 for e in es[1:])

    if sub == "mode0":
        ks = []
        for e in es:
            w, v = np.linalg.eigh(rm.herm(e))
            ks.append([(v * np.sqrt(np.clip(w, 0.0, None))) @ v.conj().T])
        import warnings

        from scipy.linalg import sqrtm

        with warnings.catch_warnings():
            warnings.simplefilter("ignore")
            finite = all(bool(np.all(np.isfinite(sqrtm(e)))) for e in es)
        if not finite:
            # environment fact, not judged: scipy 1.18.1 sqrtm returns inf for some singular PSD inputs (the zero matrix,
            # diag(0,1,0)); quara's mode 0 is defined through scipy.linalg.sqrtm
            ctx.skip("scipy-sqrtm-nonfinite-on-singular-input")
            return
        tol = alg if lam_min >= 1e-3 else 1e-5
        ctx.label("rank-deficient" if lam_min < 1e-3 else "full-rank")
        mp = qp.generate_mprocess(0)
        exp = {"t": "mprocess", "K": ks, "shape": (m,)}
        compare(ctx, mp, exp, basis, d, "mode0", tol_scale=tol / alg)
        if _tname(mp) == "MProcess":
            compare(ctx, mp.to_povm(), {"t": "povm", "E": es}, basis, d, "mode0_to_povm", tol_scale=tol / alg)
        ctx.nontrivial(noncomm or lam_min < 1e-3)
        return

    if sub == "mode1":
        ref_hss = []
        degenerate = False
        for e in es:
            groups, gap, within = _eig_groups(e)
            if gap < 1e-4:
                ctx.skip("spectral-gap-band")
                return
            if within > 1e-14:
                # eigenvalues of one model eigenspace that differ by rounding noise comparable to the library's
                # grouping tolerance (atol=1e-13): whether they are one eigenspace is undecidable -> margin band
                ctx.skip("degeneracy-spread-band")
                return
            if any(np.real(np.trace(p)) > 1.5 and lam > 1e-6 for lam, p in groups):
                degenerate = True
            hs = np.zeros((n, n), dtype=complex)
            for lam, p in groups:
                hs = hs + lam * rm.hs_from_map(basis, lambda a, p=p: p @ a @ p)
            ref_hss.append(np.real(hs))
        ctx.label("degenerate-spectrum" if degenerate else "simple-spectrum")
        asym = mode1_rows_not_columns(case)
        ctx.label("eigvec-matrix:" + ("rows-differ-from-columns" if asym else "real-symmetric-permutation"))
        try:
            mp = qp.generate_mprocess(1)
        except ValueError as ex:
            # physical POVM in, documented call: a ValueError here is a failure of the mechanism, routed through an
            # oracle id under the mode1 prefix so that the known finding can be matched by its predicate
            ctx.check(False, "mode1:raises", f"ValueError: {str(ex)[:200]}")
            ctx.nontrivial(True)
            return
        if ctx.check(_tname(mp) == "MProcess", "mode1:type") and ctx.equal(len(mp.hss), m, "mode1:num_outcomes"):
            ctx.close(np.array([np.asarray(h) for h in mp.hss]), np.array(ref_hss), 10 * alg, "mode1:hss")
            compare(ctx, mp.to_povm(), {"t": "povm", "E": es}, basis, d, "mode1:to_povm", tol_scale=10)
        ctx.nontrivial(True)
        return

    if sub == "mode2":
        smods = [model(s) for s in case["states"]]
        qss = [q_build(s, c_sys, basis, ipr) for s in smods]
        rhos = [s["rho"] for s in smods] if case["as_list"] else [smods[0]["rho"]] * m
        ctx.label("post_selected:" + ("list" if case["as_list"] else "single"))
        mp = qp.generate_mprocess(2, qss if case["as_list"] else qss[0])
        ref = np.array([np.real(rm.hs_from_map(basis, lambda a, e=e, r=r: np.trace(e @ a) * r)) for e, r in zip(es, rhos)])
        if ctx.check(_tname(mp) == "MProcess", "mode2:type") and ctx.equal(len(mp.hss), m, "mode2:num_outcomes"):
            ctx.close(np.array([np.asarray(h) for h in mp.hss]), ref, alg, "mode2:hss")
            ctx.equal(tuple(mp.shape), (m,), "mode2:shape")
            compare(ctx, mp.to_povm(), {"t": "povm", "E": es}, basis, d, "mode2:to_povm")
        ctx.nontrivial(noncomm or any(rm.commutator_norm(es[0], r) > 1e-3 for r in rhos))
        return
    raise ValueError(sub)


# =============================================================================== facet 3: bracketing
def bracketings(i, j):
    """all binary trees over leaves i..j-1 as nested tuples."""
    if j - i == 1:
        return [i]
    out = []
    for k in range(i + 1, j):
        for left in bracketings(i, k):
            for right in bracketings(k, j):
                out.append((left, right))
    return out


@st.composite
def chain_case(draw, tier, lengths=(2, 3, 3, 4, 4, 4, 5, 5, 5)):
    shape = draw(st.sampled_from(SHAPE_POOL))
    n_total = draw(st.sampled_from(list(lengths)))
    has_povm = draw(st.booleans())
    n_ops = n_total - 1 - (1 if has_povm else 0)
    cap = 36 if shape == "2q" else 96
    kinds = [draw(st.sampled_from(["mprocess", "mprocess", "gate"])) for _ in range(n_ops)]
    # outcome counts: consecutive measurement factors differ, product capped
    counts = []
    prod = 1
    last = None
    n_meas = sum(1 for k in kinds if k == "mprocess") + (1 if has_povm else 0)
    for _ in range(n_meas):
        choices = [c for c in (2, 3, 4) if c != last and prod * c * (2 ** (n_meas - len(counts) - 1)) <= cap] or [2]
        c = draw(st.sampled_from(choices))
        counts.append(c)
        prod *= c
        last = c
    thr = draw(st.sampled_from(["none", "none", "none", "zero", "tiny"]))
    first_mp = next((i for i, k in enumerate(kinds) if k == "mprocess"), None)
    if thr != "none" and not (first_mp == 0 or (n_ops == 0 and has_povm)):
        thr = "none"
    state = draw(gen.state_case((shape,))) if thr == "none" else draw(_aligned_state(shape, thr))
    ops = []
    ci = 0
    for i, k in enumerate(kinds):
        if k == "gate":
            ops.append(draw(_gate_case(shape)))
        else:
            m = counts[ci]
            ci += 1
            if thr != "none" and i == 0:
                ops.append(draw(_aligned_mprocess(shape, m, state["raw_u"])))
            else:
                ops.append(draw(_mp_case(shape, m, multi_shape=False)))
    povm = None
    if has_povm:
        m = counts[ci]
        if thr != "none" and n_ops == 0:
            povm = draw(_aligned_povm(shape, m, state["raw_u"]))
        else:
            povm = draw(_povm_case(shape, m))
    return {"shape": shape, "state": state, "ops": ops, "povm": povm, "thr": thr, "ipr": draw(st.booleans())}


def chain_has_two_mprocesses(case):
    """known-finding predicate (C06-F6): only chains with at least two measurement processes have a bracketing in
    which two MProcess-typed sub-results are composed directly (the oracle id additionally restricts the match to
    exactly those bracketings)."""
    return sum(1 for o in case.get("ops", []) if o.get("type") == "mprocess") >= 2


def _tree_str(t):
    return str(t) if isinstance(t, int) else "(" + _tree_str(t[0]) + "." + _tree_str(t[1]) + ")"


def check_bracketing(case, ctx):
    ctx.label("raw:dense" if case.get("dense") else "raw:hypothesis-sparse")
    from quara.objects.operators import compose_qoperations

    shape = case["shape"]
    d = _d(shape)
    basis = gen.ref_basis(shape)
    c_sys = _c_sys(shape)
    # argument order of compose_qoperations: last in time first
    time_ordered = [case["state"]] + list(case["ops"]) + ([case["povm"]] if case["povm"] else [])
    mods_t = [model(c) for c in time_ordered]
    args_m = list(reversed(mods_t))
    n = len(args_m)
    exp = args_m[-1]
    for mo in reversed(args_m[:-1]):
        exp = m_compose(mo, exp)
    dims = [n_outcomes(mo) for mo in mods_t if mo["t"] in ("mprocess", "povm")]
    exp_full = dict(exp)
    if exp["t"] in ("dist", "ensemble", "mprocess"):
        exp_full["shape"] = tuple(dims)
    ipr = _effective_ipr(case, exp)
    # every prefix of the chain is an intermediate result of some bracketing: no model probability may sit in the band
    pre = mods_t[0]
    for mo in mods_t[1:]:
        pre = m_compose(mo, pre)
        j = joint_probs(pre)
        if j is not None:
            if np.any((j > BAND[0]) & (j < BAND[1])):
                ctx.skip("threshold-band")
                return
            if ipr and min_kept_prob(pre) < 5e-3:
                ipr = False
    args_q = [q_build(mo, c_sys, basis, ipr) for mo in args_m]
    kinds = [mo["t"] for mo in args_m]
    n_meas = len(dims)
    ctx.label(shape, f"length:{n}", f"measurements:{n_meas}", "thr:" + case["thr"], "ipr:" + str(ipr),
              "ends-with-povm" if case["povm"] else "ends-with-operation")
    diff_counts = n_meas >= 2 and len(set(dims)) > 1
    nc = any(noncommuting(x, y) for x, y in zip(mods_t[:-1], mods_t[1:]))
    if diff_counts:
        ctx.label("different-outcome-counts")
    if nc:
        ctx.label("non-commuting")
    ctx.nontrivial(diff_counts or nc)
    tol_scale = float(n)

    memo = {}

    def rtype(t):
        """type of the sub-result over a leaf range (mprocess if it contains one, else the strongest)."""
        leaves = _leaves(t)
        ks = [kinds[i] for i in leaves]
        if "state" in ks:
            return "state-like"
        if "povm" in ks:
            return "povm"
        return "mprocess" if "mprocess" in ks else "gate"

    def has_mpmp(t):
        if isinstance(t, int):
            return False
        if rtype(t[0]) == "mprocess" and rtype(t[1]) == "mprocess":
            return True
        return has_mpmp(t[0]) or has_mpmp(t[1])

    def ev(t):
        if isinstance(t, int):
            return args_q[t]
        key = _tree_str(t)
        if key not in memo:
            memo[key] = compose_qoperations(ev(t[0]), ev(t[1]))
        return memo[key]

    trees = bracketings(0, n)
    ctx.label(f"bracketings:{len(trees)}")
    n_mpmp = 0
    for t in trees:
        mp = has_mpmp(t)
        n_mpmp += 1 if mp else 0
        oid = "bracket_mpmp" if mp else "bracket"
        try:
            res = ev(t)
        except ValueError as ex:
            if not mp:
                raise
            # a mis-ordered MProcess x MProcess intermediate may fail validation further up (C06-F6)
            ctx.check(False, "bracket_mpmp:raises", f"{_tree_str(t)}: {str(ex)[:200]}")
            continue
        compare(ctx, res, exp_full, basis, d, oid, tol_scale=tol_scale, shape_mode="coarsening")
    if n_mpmp:
        ctx.label("has-mprocess-x-mprocess-bracketing")
    # flat calls: the documented fold
    flat = compose_qoperations(*args_q)
    compare(ctx, flat, exp_full, basis, d, "flat", tol_scale=tol_scale, shape_mode="equal" if exp["t"] != "mprocess" else "coarsening")
    flat_list = compose_qoperations(list(args_q))
    compare(ctx, flat_list, exp_full, basis, d, "flat_list", tol_scale=tol_scale, shape_mode="coarsening")
    if n >= 3:
        mixed = compose_qoperations(args_q[0], list(args_q[1:]))
        compare(ctx, mixed, exp_full, basis, d, "flat_mixed", tol_scale=tol_scale, shape_mode="coarsening")


def _leaves(t):
    return [t] if isinstance(t, int) else _leaves(t[0]) + _leaves(t[1])


# =============================================================================== facet 4: closure
def physical_by_model(ctx, res, basis, d, oid, tol):
    """re-judge a returned object from its arrays (numpy only)."""
    n = d * d
    t = _tname(res)
    if t == "State":
        rho = rm.unvec(basis, np.asarray(res.vec))
        ctx.close(float(np.real(np.trace(rho))), 1.0, tol, oid + ":trace_one")
        ctx.leq(-rm.min_eig(rho), 0.0, tol, oid + ":psd")
    elif t == "Gate":
        hs = np.asarray(res.hs)
        ctx.leq(rm.tp_defect_hs(basis, hs), 0.0, tol, oid + ":tp")
        ctx.leq(-rm.min_eig(rm.choi_from_hs(basis, hs)), 0.0, tol * d, oid + ":cp")
    elif t == "Povm":
        es = [rm.unvec(basis, np.asarray(v)) for v in res.vecs]
        ctx.close(sum(es), np.eye(d, dtype=complex), tol, oid + ":identity_sum")
        ctx.leq(max(-rm.min_eig(e) for e in es), 0.0, tol, oid + ":psd")
    elif t == "MProcess":
        hss = [np.asarray(h) for h in res.hss]
        ctx.leq(rm.tp_defect_hs(basis, sum(hss)), 0.0, tol, oid + ":sum_tp")
        ctx.leq(max(-rm.min_eig(rm.choi_from_hs(basis, h)) for h in hss), 0.0, tol * d, oid + ":cp")
    elif t == "StateEnsemble":
        ps = np.asarray(res.prob_dist.ps)
        ctx.check(bool(np.all(ps >= 0)), oid + ":ps_nonnegative")
        ctx.close(float(ps.sum()), 1.0, 1e-12, oid + ":ps_sum")
        for p, s in zip(ps, res.states):
            v = np.asarray(s.vec)
            if p == 0:
                continue
            rho = rm.unvec(basis, v)
            ctx.close(float(np.real(np.trace(rho))), 1.0, tol, oid + ":state_trace_one")
            ctx.leq(-rm.min_eig(rho), 0.0, tol / min(1.0, float(p)), oid + ":state_psd")
            ctx.check(bool(s.is_physicality_required), oid + ":state_ipr_flag")
    elif t == "MultinomialDistribution":
        ps = np.asarray(res.ps)
        ctx.check(bool(np.all(ps >= 0)), oid + ":ps_nonnegative")
        ctx.close(float(ps.sum()), 1.0, 1e-12, oid + ":ps_sum")
    else:
        ctx.check(False, oid + ":type", f"unexpected result type {t}")


TYPE_ORDER = ("state", "povm", "gate", "mprocess", "ensemble")
SUPPORTED = {tuple(p.split("_")) for p in PAIRS}
UNSUPPORTED = [(x, y) for x in TYPE_ORDER for y in TYPE_ORDER if (x, y) not in SUPPORTED]
NON_ENSEMBLE_PAIRS = tuple(p for p in PAIRS if "ensemble" not in p)


def _operand_st(draw, t, shape):
    if t == "state":
        return draw(gen.state_case((shape,)))
    if t == "povm":
        return draw(_povm_case(shape, draw(st.integers(2, 4))))
    if t == "gate":
        return draw(_gate_case(shape))
    if t == "mprocess":
        return draw(_mp_case(shape, draw(st.integers(2, 4))))
    return draw(_ensemble_case(shape))


@st.composite
def closure_case(draw, tier):
    sub = draw(st.sampled_from(["physical"] * 6 + ["triple", "triple", "mismatch", "unsupported", "too_few"]))
    if sub == "physical":
        c = draw(pair_case(tier, force_ipr=True))
        c.pop("sampling_seed", None)
        c["sub"] = sub
        return c
    shape = draw(st.sampled_from(SHAPE_POOL))
    case = {"sub": sub, "shape": shape}
    if sub == "triple":
        case["chain"] = draw(chain_case(tier, lengths=(3,)))
        case["chain"]["ipr"] = True
        case["shape"] = case["chain"]["shape"]
    elif sub == "mismatch":
        pair = draw(st.sampled_from(NON_ENSEMBLE_PAIRS + ("gate_ensemble", "povm_ensemble") + ("mprocess_ensemble",) * 4))
        ta, tb = pair.split("_")
        how = draw(st.sampled_from(["fresh-system-same-names", "other-name", "other-dimension"]))
        if tb == "ensemble":
            # (with an ensemble operand the library compares no composite systems: only a dimension mismatch fails, and
            # then inside the arithmetic; any exception is accepted, the point is what state the failure leaves behind)
            how = "other-dimension"
        other = shape
        if how == "other-dimension":
            other = draw(st.sampled_from([s for s in ("1q", "qutrit", "2q") if s != shape]))
        case.update({"pair": pair, "how": how, "a": _operand_st(draw, ta, shape), "b": _operand_st(draw, tb, other),
                     "other_shape": other})
    elif sub == "unsupported":
        ta, tb = draw(st.sampled_from(UNSUPPORTED))
        case.update({"ta": ta, "tb": tb, "a": _operand_st(draw, ta, shape), "b": _operand_st(draw, tb, shape)})
    else:
        t = draw(st.sampled_from(["state", "povm", "gate", "mprocess"]))
        case.update({"t": t, "a": _operand_st(draw, t, shape), "as_list": draw(st.booleans())})
    return case


def check_closure(case, ctx):
    ctx.label("raw:dense" if case.get("dense") else "raw:hypothesis-sparse")
    from quara.objects.operators import compose_qoperations

    sub = case["sub"]
    shape = case["shape"]
    d = _d(shape)
    basis = gen.ref_basis(shape)
    c_sys = _c_sys(shape)
    ctx.label("sub:" + sub, shape)
    alg = rm.algebraic_tol(d)

    if sub == "physical":
        a, b = model(case["a"]), model(case["b"])
        exp = m_compose(a, b)
        _label_pair(ctx, case, a, b, exp)
        if joint_probs(exp) is not None:
            j = joint_probs(exp)
            if np.any((j > BAND[0]) & (j < BAND[1])):
                ctx.skip("threshold-band")
                return
        if min_kept_prob(exp) < 5e-3:
            # dividing by p lifts rounding in the post-state above quara's atol=1e-13: not asserted
            ctx.skip("ill-conditioned-post-state")
            return
        qa = q_build(a, c_sys, basis, True)
        qb = q_build(b, c_sys, basis, True)
        # succeeds: the result constructors run their own physicality validation (is_physicality_required=True)
        res = _call(compose_qoperations, qa, qb, case["call"])
        if hasattr(res, "is_physicality_required") and _tname(res) != "StateEnsemble":
            ctx.check(bool(res.is_physicality_required), "closure:result_requires_physicality")
        physical_by_model(ctx, res, basis, d, "closure:" + case["pair"], 10 * alg)
        return

    if sub == "triple":
        ch = case["chain"]
        time_ordered = [ch["state"]] + list(ch["ops"]) + ([ch["povm"]] if ch["povm"] else [])
        mods = [model(c) for c in time_ordered]
        pre = mods[0]
        for mo in mods[1:]:
            pre = m_compose(mo, pre)
            j = joint_probs(pre)
            if j is not None and np.any((j > BAND[0]) & (j < BAND[1])):
                ctx.skip("threshold-band")
                return
            if min_kept_prob(pre) < 5e-3:
                ctx.skip("ill-conditioned-post-state")
                return
        qs = [q_build(mo, c_sys, basis, True) for mo in reversed(mods)]
        dims = [n_outcomes(mo) for mo in mods if mo["t"] in ("mprocess", "povm")]
        ctx.label("kinds:" + ">".join(mo["t"] for mo in mods))
        ctx.nontrivial((len(dims) >= 2 and len(set(dims)) > 1) or any(noncommuting(x, y) for x, y in zip(mods[:-1], mods[1:])))
        res = compose_qoperations(*qs)
        physical_by_model(ctx, res, basis, d, "closure:chain", 30 * alg)
        # the operator part alone (no state) is a physical operation as well, unless it is MProcess x MProcess (C06-F6 site)
        if len(qs) == 3 and not (mods[1]["t"] == "mprocess" and mods[2]["t"] == "mprocess"):
            res2 = compose_qoperations(qs[0], qs[1])
            physical_by_model(ctx, res2, basis, d, "closure:operators", 30 * alg)
        return

    if sub == "mismatch":
        ctx.label("pair:" + case["pair"], "how:" + case["how"])
        a, b = model(case["a"]), model(case["b"])
        qa = q_build(a, c_sys, basis, True)
        how = case["how"]
        oshape = case["other_shape"]
        if how == "other-name":
            names = [10 + i for i in range(len(gen.SHAPES[oshape]))]
            c2 = build.c_sys_for(oshape, names=names)
        else:
            c2 = build.c_sys_for(oshape)
        qb = q_build(b, c2, gen.ref_basis(oshape), True)
        if case["pair"].endswith("_ensemble"):
            ctx.raises((ValueError, TypeError, IndexError), lambda: compose_qoperations(qa, qb), "mismatched_dimension_with_ensemble_raises",
                       case["pair"])
        else:
            ctx.raises((ValueError,), lambda: compose_qoperations(qa, qb), "mismatched_systems_valueerror", case["pair"] + " " + how)
        # (what the failure leaves behind in process-global state is checked by the runner after every case)
        ctx.nontrivial(True)
        return

    if sub == "unsupported":
        ctx.label(f"types:{case['ta']},{case['tb']}")
        qa = q_build(model(case["a"]), c_sys, basis, True)
        qb = q_build(model(case["b"]), c_sys, basis, True)
        ctx.raises((TypeError,), lambda: compose_qoperations(qa, qb), "unsupported_pair_typeerror", f"{case['ta']},{case['tb']}")
        ctx.nontrivial(True)
        return

    if sub == "too_few":
        qa = q_build(model(case["a"]), c_sys, basis, True)
        if case["as_list"]:
            ctx.raises((ValueError,), lambda: compose_qoperations([qa]), "too_few_arguments_valueerror")
        else:
            ctx.raises((ValueError,), lambda: compose_qoperations(qa), "too_few_arguments_valueerror")
        ctx.nontrivial(True)
        return
    raise ValueError(sub)


# =============================================================================== facets
FACETS = {
    "pairwise": {
        "strategy": pairwise_strategy,
        "check": check_pairwise,
        "budget": {"quick": {"examples": 3000, "shards": 10}, "thorough": {"examples": 60000, "shards": 16}},
        "nontrivial": "measurement factors with different outcome counts, or non-commuting operand pair, or zero/tiny threshold class",
        "min_nontrivial": 100,
    },
    "instrument_povm": {
        "strategy": lambda tier: _dense(instrument_case(tier)),
        "check": check_instrument,
        "budget": {"quick": {"examples": 900, "shards": 3}, "thorough": {"examples": 20000, "shards": 16}},
        "nontrivial": "non-commuting elements / rank-deficient element / different Kraus counts; every mode-1 and invalid-argument case",
        "min_nontrivial": 50,
    },
    "bracketing": {
        "strategy": lambda tier: _dense(chain_case(tier)),
        "check": check_bracketing,
        "budget": {"quick": {"examples": 600, "shards": 12}, "thorough": {"examples": 12000, "shards": 16}},
        "nontrivial": ">= 2 measurement factors with different outcome counts, or a non-commuting neighbouring pair",
        "min_nontrivial": 50,
    },
    "closure": {
        "strategy": lambda tier: _dense(closure_case(tier)),
        "check": check_closure,
        "budget": {"quick": {"examples": 900, "shards": 4}, "thorough": {"examples": 20000, "shards": 16}},
        "nontrivial": "as pairwise; every rejection case",
        "min_nontrivial": 50,
    },
}
