"""C04 - Equality and inequality projections are nearest-point projections.

Oracles (all reference computations are pure numpy, no quara):
  * feasibility of the result judged on the matrices (trace / element sum / Tr Phi(B_b) / eigenvalues);
  * closed-form reference: affine projection x - A^T (A A^T)^-1 (A x - b) for the equality sets (A, b written down from
    the matrix-level definitions) and eigenvalue clipping of every operator (density matrix, POVM element, Choi matrix)
    for the inequality sets, in the orthonormal Hermitian basis where the coefficient map is an isometry;
  * variational inequality <x - P(x), z - P(x)> <= tol against generated feasible competitors z;
  * idempotence, fixed points, byte snapshots of the arguments, agreement of the object-level, `_with_var` and
    `func_calc_proj_*` forms under both parametrisation flags.
"""
import math

import numpy as np
from hypothesis import strategies as st
from hypothesis.extra import numpy as hnp

from harness import build, gen
from harness import refmodel as rm

RULE = (
    "Inputs are real stacked parameter vectors x = scale * u, scale = 1 or log-uniform in [1e-3,1e3], of five kinds: dense "
    "(every coordinate a Hypothesis draw; for more than 192 coordinates a fixed cosine mixing of 192 draws), sparse (a fill "
    "value plus a few distinct coordinates: zero / constant / spike vectors), spectral (every operator = U diag(w) U^dagger "
    "with complex U and eigenvalues from a small signed grid, hence repeated), near (physical object + eps * dense, eps in "
    "[1e-9,1e-1]) and feasible (physical objects, scaled for the cones; points of the affine set; reference-clipped dense "
    "points = boundary points).  All four types, m in 2..5, shapes 1q / qutrit / 2q / 2x3, both parametrisation flags.  "
    "Feasible competitors for the variational inequality: a constructed physical object (scaled for cones), the reference "
    "projection of a perturbed input, and the cone apex.  Non-trivial: the input violates the constraint by more than "
    "1e-6*max|x| and (inequality sets) some violating operator is complex-structured (max|Im| > 1e-6*max|x|) or has a "
    "repeated eigenvalue (gap < 1e-9*max|x|); for the forms facet additionally the projection is not the identity by "
    "construction (not eq under flag=True)."
)
ASSUMPTIONS = [
    "the constraint sets are the textbook ones: Tr rho = 1; sum_x E_x = I; Tr Phi(B_b) = Tr B_b for all b (sum over outcomes "
    "for a measurement process); rho >= 0, E_x >= 0, Choi(Phi_x) >= 0",
    "the basis is an orthonormal Hermitian product basis with B_0 = I/sqrt(d) (normalised Pauli / Gell-Mann), so the Euclidean "
    "norm of the stacked parameters equals the Frobenius norm of the operators / Choi matrices (checked numerically per shape)",
    "variable vectors denote the stacked vector obtained by inserting the implied coordinates (first coefficient 1/sqrt d, "
    "last POVM element, first HS row); a projection in variable form is the stacked projection with those coordinates dropped",
    "results are compared up to the algebraic tolerance 1e3*eps*D^2*(1+max|x|) plus quara's own absolute truncation threshold",
]
TECHNIQUE = (
    "property-based testing (Hypothesis): generated parameter vectors vs closed-form reference projections, variational "
    "inequality against generated feasible competitors, idempotence / fixed-point / no-mutation invariants, differential "
    "agreement of object-level, _with_var and closure forms"
)
LEVEL_TEXT = (
    "Generated-input search: thousands of parameter vectors per run over all four types, four shapes, both flags, six decades "
    "of scale, degenerate and complex spectra, feasible and boundary points.  Every result is compared with an independent "
    "numpy projection (affine / eigenvalue clipping) and tested against feasible competitors, so a feasible-and-idempotent "
    "but non-nearest projection is caught.  It cannot prove absence; it reaches the complex-Hermitian, degenerate and "
    "large/small-scale inputs the real-symmetric upstream examples do not."
)
LEVEL_NOTE = (
    "Trusted: numpy LAPACK (eigh, solve, qr), harness/refmodel.py bases and constructions, the coefficient<->Choi isometry "
    "built here from the basis by einsum (self-checked against refmodel.choi_from_hs per shape), and the stated "
    "parametrisation of variable vectors."
)

TYPES = ("state", "povm", "gate", "mprocess")
K_CORE = 192
K_AUX = 48
IMAG_MSG = "some imaginary parts of entries of matrix != 0"
LEVELS = [-2.0, -1.0, -1.0, -0.5, 0.0, 0.0, 0.5, 1.0, 1.0, 2.0]


# ============================================================================= reference model (pure numpy)
class Ref:
    """per-shape constants of the reference model."""

    def __init__(self, shape):
        self.shape = shape
        self.basis = gen.ref_basis(shape)
        self.d = gen.dim_of(shape)
        self.n = self.d * self.d
        self.B = np.array(self.basis)  # n x d x d
        g = rm.gram(self.basis)
        if not np.allclose(g, np.eye(self.n), atol=1e-12):
            raise AssertionError("reference basis not orthonormal")
        self.t = np.real(np.array([np.trace(b) for b in self.basis]))  # Tr B_a
        self.vec_id = np.real(rm.vec(self.basis, np.eye(self.d)))
        self.V = self.B.reshape(self.n, self.n).T.copy()  # columns = row-major vec(B_a)  (d^2 x n)
        self._T = None
        self._A = {}

    @property
    def T(self):
        """unitary (d^4 x n^2): column (a,b) = row-major vec(B_a (x) conj B_b); Choi = T @ hs.flatten()."""
        if self._T is None:
            d, n = self.d, self.n
            t = np.einsum("aij,bkl->ikjlab", self.B, self.B.conj()).reshape(d ** 4, n * n)
            if d <= 3:  # self check against the textbook formula in refmodel
                k = np.arange(n * n, dtype=float).reshape(n, n)
                hs = np.cos(0.7 * k + 0.3) + 0.25 * np.sin(1.3 * k * k)
                c1 = (t @ hs.reshape(-1)).reshape(n, n)
                c2 = rm.choi_from_hs(self.basis, hs)
                if not np.allclose(c1, c2, atol=1e-12):
                    raise AssertionError("Choi isometry disagrees with refmodel.choi_from_hs")
            self._T = t
        return self._T

    def eq_system(self, typ, m):
        """(A, b) of the affine equality set {x : A x = b} from the matrix-level definitions."""
        key = (typ, m)
        if key not in self._A:
            n = self.n
            if typ == "state":  # Tr rho = sum_a x_a Tr B_a = 1
                a, b = self.t[None, :].copy(), np.array([1.0])
            elif typ == "povm":  # sum_x vec(E_x) = vec(I)
                a, b = np.kron(np.ones((1, m)), np.eye(n)), self.vec_id.copy()
            elif typ == "gate":  # sum_a Tr(B_a) HS[a,b] = Tr B_b
                a, b = np.kron(self.t[None, :], np.eye(n)), self.t.copy()
            elif typ == "mprocess":
                a, b = np.kron(np.ones((1, m)), np.kron(self.t[None, :], np.eye(n))), self.t.copy()
            else:
                raise ValueError(typ)
            self._A[key] = (a, b, a @ a.T)
        return self._A[key]


_REFS = {}
_CSYS = {}
_W = {}


def ref_of(shape):
    if shape not in _REFS:
        _REFS[shape] = Ref(shape)
    return _REFS[shape]


def csys_of(shape):
    """one CompositeSystem per shape and process (its lazily built sparse tables are expensive for 2x3)."""
    if shape not in _CSYS:
        _CSYS[shape] = build.c_sys_for(shape)
    return _CSYS[shape]


def n_ops(typ, m):
    return 1 if typ in ("state", "gate") else m


def op_dim(typ, d):
    return d if typ in ("state", "povm") else d * d


def stacked_size(typ, shape, m):
    n = gen.dim_of(shape) ** 2
    return {"state": n, "povm": (m or 0) * n, "gate": n * n, "mprocess": (m or 0) * n * n}[typ]


def ops_of(R, typ, m, x):
    """Hermitian operators denoted by the stacked vector (density matrix / POVM elements / Choi matrices)."""
    d, n = R.d, R.n
    if typ in ("state", "povm"):
        k = n_ops(typ, m)
        return [(R.V @ x[i * n:(i + 1) * n]).reshape(d, d) for i in range(k)]
    k = n_ops(typ, m)
    return [(R.T @ x[i * n * n:(i + 1) * n * n]).reshape(n, n) for i in range(k)]


def stacked_from_ops(R, typ, ops):
    if typ in ("state", "povm"):
        return np.concatenate([np.real(R.V.conj().T @ o.reshape(-1)) for o in ops])
    return np.concatenate([np.real(R.T.conj().T @ o.reshape(-1)) for o in ops])


def proj_ineq_ref(R, typ, m, x):
    return stacked_from_ops(R, typ, [rm.psd_clip(o) for o in ops_of(R, typ, m, x)])


def proj_eq_ref(R, typ, m, x):
    a, b, aat = R.eq_system(typ, m)
    return x - a.T @ np.linalg.solve(aat, a @ x - b)


def eq_defect(R, typ, m, x):
    """matrix-level equality defect: |Tr rho - 1| ; max|sum E - I| ; max_b |Tr Phi(B_b) - Tr B_b|."""
    d, n = R.d, R.n
    if typ == "state":
        return float(abs(np.trace(ops_of(R, typ, m, x)[0]) - 1.0))
    if typ == "povm":
        return float(np.max(np.abs(sum(ops_of(R, typ, m, x)) - np.eye(d))))
    tot = sum(x[i * n * n:(i + 1) * n * n].reshape(n, n) for i in range(n_ops(typ, m)))
    return float(np.max(np.abs(R.t @ tot - R.t)))


def spectra(R, typ, m, x):
    return [np.linalg.eigvalsh(rm.herm(o)) for o in ops_of(R, typ, m, x)]


def embed(R, typ, m, var, flag):
    """variable vector -> stacked vector (documented parametrisation)."""
    var = np.asarray(var, dtype=float)
    if not flag:
        return var.copy()
    d, n = R.d, R.n
    if typ == "state":
        return np.concatenate([[1.0 / math.sqrt(d)], var])
    if typ == "povm":
        pre = var.reshape(m - 1, n)
        return np.concatenate([var, R.vec_id - pre.sum(axis=0)])
    e0 = np.zeros(n)
    e0[0] = 1.0
    if typ == "gate":
        return np.concatenate([e0, var])
    first = e0.copy()
    for i in range(m - 1):
        first = first - var[i * n * n:i * n * n + n]
    k = (m - 1) * n * n
    return np.concatenate([var[:k], first, var[k:]])


def restrict(R, typ, m, x, flag):
    if not flag:
        return np.asarray(x, dtype=float).copy()
    n = R.n
    if typ == "state":
        return x[1:].copy()
    if typ == "povm":
        return x[:-n].copy()
    if typ == "gate":
        return x[n:].copy()
    k = (m - 1) * n * n
    return np.concatenate([x[:k], x[k + n:]])


# ============================================================================= input construction
def expand(core, size):
    """`size` coordinates from a dense core: the core itself, or a fixed cosine mixing of it (max-abs preserved)."""
    core = np.asarray(core, dtype=float)
    k = core.size
    if size <= k:
        return core[:size].copy()
    key = (size, k)
    if key not in _W:
        i = np.arange(size, dtype=float)[:, None]
        f = ((37 * np.arange(k) + 11) % size).astype(float)[None, :]
        _W[key] = np.cos(np.pi * (i + 0.5) * (f + 0.5) / size)
    y = _W[key] @ core
    mx = float(np.max(np.abs(y)))
    if mx == 0.0:
        return np.zeros(size)
    return y * (float(np.max(np.abs(core))) / mx)


def physical_stacked(obj):
    return np.asarray(gen.stacked_reference(obj, gen.ref_basis(obj["shape"])), dtype=float)


def build_x(case):
    """the stacked input vector of a case (pure function of the case)."""
    typ, shape, m = case["type"], case["shape"], case.get("m")
    R = ref_of(shape)
    size = stacked_size(typ, shape, m)
    scale = float(case["scale"])
    mode = case["mode"]
    core = np.asarray(case["core"], dtype=float)
    if mode == "dense":
        x = scale * expand(core, size)
    elif mode == "sparse":
        x = scale * np.asarray(case["sparse"], dtype=float)
    elif mode == "spectral":
        dd = op_dim(typ, R.d)
        ops = []
        for j in range(n_ops(typ, m)):
            u = rm.unitary_from_raw(expand(np.roll(core, 7 * j), 2 * dd * dd), dd)
            w = scale * np.asarray(case["spec"][j * dd:(j + 1) * dd], dtype=float)
            ops.append(rm.herm((u * w) @ u.conj().T))
        x = stacked_from_ops(R, typ, ops)
    elif mode == "near":
        x = physical_stacked(case["obj"]) + float(case["eps"]) * expand(core, size)
    elif mode == "gain":  # physical object times a common factor 1 + g: off the affine set in the identity direction only
        x = physical_stacked(case["obj"]) * (1.0 + float(case["gain"]))
    elif mode == "feasible_phys":  # physical object; scaled into the cone for the inequality sets
        x = physical_stacked(case["obj"]) * (scale if case["kind"] == "ineq" else 1.0)
    elif mode == "feasible_ref":  # generic point of the affine set / boundary point of the cone
        y = scale * expand(core, size)
        x = proj_eq_ref(R, typ, m, y) if case["kind"] == "eq" else proj_ineq_ref(R, typ, m, y)
    else:
        raise ValueError(mode)
    return np.ascontiguousarray(x, dtype=np.float64)


def competitors(case, R, x, p_ref):
    """feasible comparison points (name, z) for the variational inequality."""
    typ, m, kind = case["type"], case.get("m"), case["kind"]
    size = x.size
    sc = max(float(np.max(np.abs(x))), 1e-300)
    zp = physical_stacked(case["comp"])
    aux = expand(np.asarray(case["aux"], dtype=float), size)
    out = []
    if kind == "eq":
        out.append(("physical", zp))
        out.append(("affine", proj_eq_ref(R, typ, m, max(sc, 1.0) * aux)))
        out.append(("affine_near", proj_eq_ref(R, typ, m, x + 0.3 * sc * aux)))
    else:
        out.append(("physical_scaled", zp * float(case["zscale"]) * sc))
        out.append(("clip_near", proj_ineq_ref(R, typ, m, x + 0.3 * sc * aux)))
        out.append(("apex", np.zeros(size)))
    return out


# ============================================================================= strategies
def dense(k):
    return hnp.arrays(np.float64, k, elements=st.floats(-1.0, 1.0, allow_nan=False, width=64), fill=st.nothing()).map(
        lambda a: [float(v) for v in a]
    )


def physical_case(typ, shape, m):
    if typ == "state":
        return gen.state_case((shape,))
    if typ == "povm":
        return gen.povm_case((shape,), (m, m))
    if typ == "gate":
        return gen.gate_case((shape,))
    return gen.mprocess_case((shape,), (m, m))


def _shapes_for(typ, tier):
    if typ in ("state", "povm"):
        return ["1q", "qutrit", "2q", "2x3"]
    if tier == "quick":
        return ["1q", "1q", "1q", "qutrit", "qutrit", "2q", "2q", "2x3"]
    return ["1q", "1q", "qutrit", "qutrit", "2q", "2q", "2x3"]


MODES = {
    "eq": ["dense", "dense", "sparse", "near", "gain", "feasible_phys", "feasible_ref"],
    "ineq": ["dense", "dense", "sparse", "spectral", "spectral", "near", "feasible_phys", "feasible_ref"],
}


@st.composite
def proj_case(draw, tier, kinds):
    kind = draw(st.sampled_from(kinds))
    typ = draw(st.sampled_from(TYPES))
    shape = draw(st.sampled_from(_shapes_for(typ, tier)))
    m = draw(st.integers(2, 5)) if typ in ("povm", "mprocess") else None
    mode = draw(st.sampled_from(MODES[kind]))
    scale = draw(st.one_of(st.just(1.0), gen.log_uniform(1e-3, 1e3), gen.log_uniform(1e-3, 1e3),
                           gen.log_uniform(1e-3, 1e-1), gen.log_uniform(1e1, 1e3), st.just(1e3), st.just(1e-3),
                           # beyond the documented range: the magnitudes a relative-entropy gradient step hands to the projection
                           gen.log_uniform(1e3, 1e6)))
    case = {
        "kind": kind,
        "type": typ,
        "shape": shape,
        "m": m,
        "flag": draw(st.booleans()),
        "mode": mode,
        "scale": float(scale),
        "core": draw(dense(K_CORE)),
        "aux": draw(dense(K_AUX)),
        "comp": draw(physical_case(typ, shape, m)),
        "zscale": draw(gen.log_uniform(1e-2, 1e1)),
        "required": draw(st.booleans()),
    }
    if typ == "mprocess":
        # explicit outcome layouts: flat, padded with 1-axes, or a two-axis factorisation of m
        opts = [None, (m,), (1, m), (m, 1)] + [(a, m // a) for a in range(2, m) if m % a == 0]
        case["mshape"] = draw(st.sampled_from(opts))
        if case["mshape"] is not None:
            case["mshape"] = list(case["mshape"])
    if mode == "sparse":
        # genuinely sparse: about half of the coefficients are exactly zero (real-symmetric operators, missing Pauli
        # components) next to entries of the drawn scale
        n_sp = stacked_size(typ, shape, m)
        vals = draw(gen.raw(n_sp))
        keep = draw(st.lists(st.booleans(), min_size=n_sp, max_size=n_sp))
        case["sparse"] = [v if k else 0.0 for v, k in zip(vals, keep)]
    if mode == "spectral":
        k = n_ops(typ, m) * op_dim(typ, gen.dim_of(shape))
        case["spec"] = draw(st.lists(st.sampled_from(LEVELS), min_size=k, max_size=k))
    if mode in ("near", "gain", "feasible_phys"):
        case["obj"] = draw(physical_case(typ, shape, m))
    if mode == "gain":
        case["gain"] = draw(st.sampled_from([-1.0, 1.0])) * draw(gen.log_uniform(1e-9, 1e-2))
    if mode == "near":
        case["eps"] = draw(gen.log_uniform(1e-9, 1e-1))
    return case


@st.composite
def forms_case(draw, tier):
    case = draw(proj_case(tier, ["eq", "ineq"]))
    case["tflag"] = draw(st.booleans())
    case["arg_none"] = draw(st.booleans())
    return case


# ============================================================================= known-finding predicates
def pred_physical_input_has_sub_atol_entries(case):
    """C04-F4: truncate_hs zeroes real entries below atol=1e-13 in the projected object; a physical input with genuine
    non-zero entries below that threshold (and is_physicality_required=True, which the result inherits) can be rejected."""
    if case.get("kind") != "ineq" or not case.get("required"):
        return False
    z = np.abs(physical_stacked(case["comp"]))
    return bool(np.any((z > 1e-15) & (z < 1.01e-13)))


# ============================================================================= helpers for the checks
def _snap(q, typ):
    if typ == "state":
        return [q.vec.tobytes()]
    if typ == "povm":
        return [v.tobytes() for v in q.vecs]
    if typ == "gate":
        return [q.hs.tobytes()]
    return [h.tobytes() for h in q.hss]


def _cls(typ):
    from quara.objects.gate import Gate
    from quara.objects.mprocess import MProcess
    from quara.objects.povm import Povm
    from quara.objects.state import State

    return {"state": State, "povm": Povm, "gate": Gate, "mprocess": MProcess}[typ]


def _proj(q, kind):
    return q.calc_proj_eq_constraint() if kind == "eq" else q.calc_proj_ineq_constraint()


def _guard(ctx, oracle, fn, retry=None):
    """run a projection; the spurious imaginary-part rejection is reported under `oracle` (it is a violation: the
    projection returns nothing for a real parameter vector) and, where quara offers the knob, the call is repeated with an
    explicit truncation threshold so the other oracles still run.  returns (result | None, retried)."""
    try:
        return fn(), False
    except ValueError as e:
        if IMAG_MSG not in str(e):
            raise
        ctx.check(False, oracle, f"projection of a real parameter vector raised ValueError: {str(e)[:120]}")
        ctx.label("imag-raise")
        if retry is None:
            return None, True
        return retry(), True


def _tolerances(typ, d, x, eps_extra=0.0):
    dd = op_dim(typ, d)
    sc = float(np.max(np.abs(x))) if x.size else 0.0
    return rm.algebraic_tol(dd, sc) + 1e-13 + eps_extra, dd, sc


def _eps_retry(sc):
    return 2e-13 * (1.0 + sc)


def _classify(case, ctx, R, x):
    """labels + the non-triviality verdict of the input."""
    typ, m, kind = case["type"], case.get("m"), case["kind"]
    sc = float(np.max(np.abs(x)))
    ctx.label(kind, typ, case["shape"], "mode:" + case["mode"], f"flag:{case['flag']}")
    if m:
        ctx.label(f"m:{m}")
    if sc > 0:
        ctx.label(f"scale:1e{int(math.floor(math.log10(sc) + 0.5)):+d}")
    else:
        ctx.label("scale:0")
    if kind == "eq":
        viol = eq_defect(R, typ, m, x)
        nt = viol > 1e-6 * max(sc, 1e-300)
        if nt:
            ctx.label("violating")
        return nt
    any_viol = any_cplx = any_rep = False
    for o, w in zip(ops_of(R, typ, m, x), spectra(R, typ, m, x)):
        if -w[0] > 1e-6 * sc:
            any_viol = True
            any_cplx = any_cplx or float(np.max(np.abs(o.imag))) > 1e-6 * sc
            any_rep = any_rep or (bool(np.min(np.diff(w)) < 1e-9 * sc) if w.size > 1 else False)
    if any_viol:
        ctx.label("violating")
    if any_cplx:
        ctx.label("complex-structured")
    if any_rep:
        ctx.label("repeated-eigenvalue")
    return any_cplx or any_rep


def _feasible(ctx, R, typ, m, kind, px, tol, dd, tag):
    if kind == "eq":
        ctx.leq(eq_defect(R, typ, m, px), 0.0, tol * dd, f"feasible:eq:{typ}", tag)
    else:
        lo = min(float(w[0]) for w in spectra(R, typ, m, px))
        ctx.leq(-lo, 0.0, tol * dd, f"feasible:ineq:{typ}", tag)


def _variational(ctx, case, R, x, px, p_ref, tol):
    typ, kind = case["type"], case["kind"]
    r = x - px
    for name, z in competitors(case, R, x, p_ref):
        dz = z - px
        val = float(r @ dz)
        t = tol * (float(np.sum(np.abs(r))) + float(np.sum(np.abs(dz))) + 1.0)
        if kind == "eq":
            ctx.leq(abs(val), 0.0, t, f"variational:eq:{typ}", f"competitor={name}")
        else:
            ctx.leq(val, 0.0, t, f"variational:ineq:{typ}", f"competitor={name}")
    if kind == "ineq":  # cone: residual orthogonal to the projection
        t = tol * (float(np.sum(np.abs(r))) + float(np.sum(np.abs(px))) + 1.0)
        ctx.leq(abs(float(r @ px)), 0.0, t, f"cone_orthogonality:{typ}")


# ============================================================================= object-level facets
def check_object(case, ctx):
    typ, shape, m, kind, flag = case["type"], case["shape"], case.get("m"), case["kind"], case["flag"]
    R = ref_of(shape)
    c_sys = csys_of(shape)
    x = build_x(case)
    ctx.nontrivial(_classify(case, ctx, R, x))

    q = build.make(c_sys, typ, x, m=m, on_para_eq_constraint=flag, mshape=case.get("mshape"))
    snap = _snap(q, typ)
    eps_extra = 0.0

    def retry():
        q2 = build.make(c_sys, typ, x, m=m, on_para_eq_constraint=flag, mshape=case.get("mshape"),
                        eps_truncate_imaginary_part=_eps_retry(float(np.max(np.abs(x)))))
        return _proj(q2, kind)

    # Gate.calc_proj_ineq_constraint does not forward the object's threshold: no second attempt possible there
    p, retried = _guard(ctx, f"no_spurious_raise:{kind}:{typ}", lambda: _proj(q, kind),
                        None if typ == "gate" else retry)
    ctx.equal(_snap(q, typ), snap, f"no_mutation_object:{kind}:{typ}")
    if p is None:
        ctx.skip("imag-raise-no-knob")
        return
    if retried:
        eps_extra = _eps_retry(float(np.max(np.abs(x))))
    tol, dd, sc = _tolerances(typ, R.d, x, eps_extra)

    ctx.check(type(p) is type(q), f"result_type:{typ}")
    ctx.check(p.on_para_eq_constraint == flag, f"result_flag:{typ}")
    px = build.stacked_of(p)
    p_ref = proj_eq_ref(R, typ, m, x) if kind == "eq" else proj_ineq_ref(R, typ, m, x)
    if not ctx.close(px, p_ref, tol, f"closed_form:{kind}:{typ}"):
        if px.shape != x.shape:
            return
    _feasible(ctx, R, typ, m, kind, px, tol, dd, "P(x)")
    _variational(ctx, case, R, x, px, p_ref, tol)
    if case["mode"].startswith("feasible"):
        ctx.close(px, x, tol, f"fixed_point_input:{kind}:{typ}")
        ctx.label("input-feasible")

    # idempotence (same threshold as the first application)
    def again():
        return _proj(p, kind)

    p2, _ = _guard(ctx, f"no_spurious_raise:{kind}:{typ}", again, None)
    if p2 is not None:
        px2 = build.stacked_of(p2)
        tol2 = max(tol, _tolerances(typ, R.d, px, eps_extra)[0])
        ctx.close(px2, px, 2 * tol2, f"idempotent:{kind}:{typ}")

    # fixed point at a constructed physical object (also with the default is_physicality_required=True)
    z = physical_stacked(case["comp"])
    required = bool(case.get("required"))
    qz = build.make(c_sys, typ, z, m=m, on_para_eq_constraint=flag, mshape=case.get("mshape"), is_physicality_required=required)
    snap_z = _snap(qz, typ)
    try:
        pz = _proj(qz, kind)
    except ValueError as e:
        # the result inherits is_physicality_required: projecting a physical object must give a physical object
        if not required or "not physically correct" not in str(e):
            raise
        ctx.check(False, f"physical_stays_physical:{kind}:{typ}",
                  f"projection of an accepted physical object raised ValueError: {str(e)[:100]}")
        ctx.label("physical-input-rejected")
        qz = build.make(c_sys, typ, z, m=m, on_para_eq_constraint=flag, mshape=case.get("mshape"), is_physicality_required=False)
        snap_z = _snap(qz, typ)
        pz = _proj(qz, kind)
    ctx.equal(_snap(qz, typ), snap_z, f"no_mutation_object:{kind}:{typ}")
    tz = _tolerances(typ, R.d, z)[0]
    ctx.close(build.stacked_of(pz), z, tz, f"fixed_point_physical:{kind}:{typ}")
    ctx.label(f"physical-required:{required}")


# ============================================================================= forms facet
def check_forms(case, ctx):
    typ, shape, m, kind, flag = case["type"], case["shape"], case.get("m"), case["kind"], case["flag"]
    R = ref_of(shape)
    c_sys = csys_of(shape)
    cls = _cls(typ)
    x_in = build_x(case)
    var = restrict(R, typ, m, x_in, flag)
    x = embed(R, typ, m, var, flag)  # the stacked vector the variables denote
    if flag:  # harness sanity: the embedding satisfies the equality constraint
        if eq_defect(R, typ, m, x) > 1e-9 * (1.0 + float(np.max(np.abs(x)))):
            raise AssertionError("embed() does not satisfy the equality constraint")
    nt = _classify(case, ctx, R, x)
    ctx.nontrivial(nt and not (kind == "eq" and flag))
    sc_x = float(np.max(np.abs(x))) if x.size else 0.0
    eps_r = _eps_retry(sc_x)
    tol0, dd, _ = _tolerances(typ, R.d, x)
    tol1 = tol0 + eps_r
    p_ref = proj_eq_ref(R, typ, m, x) if kind == "eq" else proj_ineq_ref(R, typ, m, x)
    ref_var = restrict(R, typ, m, p_ref, flag)
    if kind == "eq" and flag:
        ref_var = var.copy()  # identity by construction
    var_bytes = var.tobytes()

    tflag = bool(case["tflag"])
    use_none = bool(case["arg_none"]) and tflag == flag
    arg = None if use_none else flag
    ctx.label(f"closure-arg:{'None' if use_none else 'explicit'}")
    tmpl = build.make(c_sys, typ, physical_stacked(case["comp"]), m=m, on_para_eq_constraint=tflag, mshape=case.get("mshape"))
    tmpl_r = build.make(c_sys, typ, physical_stacked(case["comp"]), m=m, on_para_eq_constraint=tflag, mshape=case.get("mshape"),
                        eps_truncate_imaginary_part=eps_r)

    def static(v):
        if kind == "eq":
            return cls.calc_proj_eq_constraint_with_var(c_sys, v, on_para_eq_constraint=flag)
        return cls.calc_proj_ineq_constraint_with_var(c_sys, v, on_para_eq_constraint=flag)

    def static_retry(v):
        return cls.calc_proj_ineq_constraint_with_var(c_sys, v, on_para_eq_constraint=flag,
                                                      eps_truncate_imaginary_part=eps_r)

    def via_object(v):
        o = tmpl.generate_from_var(v, on_para_eq_constraint=flag)
        return _proj(o, kind).to_var()

    def closure_obj(t):
        def f(v):
            fn = t.func_calc_proj_eq_constraint(arg) if kind == "eq" else t.func_calc_proj_ineq_constraint(arg)
            return fn(v)
        return f

    def closure_var(t):
        def f(v):
            fn = (t.func_calc_proj_eq_constraint_with_var(arg) if kind == "eq"
                  else t.func_calc_proj_ineq_constraint_with_var(arg))
            return fn(v)
        return f

    forms = [
        ("with_var", static, static_retry if kind == "ineq" else None),
        ("object", via_object, None),
        ("object_closure", closure_obj(tmpl), None),
        ("with_var_closure", closure_var(tmpl), closure_var(tmpl_r) if kind == "ineq" else None),
    ]
    results = {}
    for name, fn, rt in forms:
        v = np.frombuffer(var_bytes, dtype=np.float64).copy()
        v2 = np.frombuffer(var_bytes, dtype=np.float64).copy()
        out, retried = _guard(ctx, f"no_spurious_raise:{kind}:{typ}", lambda: fn(v), (lambda: rt(v2)) if rt else None)
        ctx.check(v.tobytes() == var_bytes and v2.tobytes() == var_bytes, f"no_mutation_var:{kind}:{typ}:{name}",
                  lambda: f"argument changed by up to {np.max(np.abs(v - np.frombuffer(var_bytes, dtype=np.float64))):.3e}")
        if out is None:
            continue
        out = np.asarray(out)
        tol = tol1 if retried else tol0
        if ctx.close(out, ref_var, tol, f"form_vs_reference:{kind}:{typ}:{name}") or out.shape == ref_var.shape:
            results[name] = (out, tol)
    if "with_var" in results and "object" in results:
        a, ta = results["with_var"]
        b, tb = results["object"]
        ctx.close(a, b, ta + tb, f"forms_agree:{kind}:{typ}")
    if not results:
        ctx.skip("imag-raise-all-forms")


FACETS = {
    "eq_object": {
        "strategy": lambda tier: proj_case(tier, ["eq"]),
        "check": check_object,
        "budget": {"quick": {"examples": 1200, "shards": 4}, "thorough": {"examples": 24000, "shards": 16}},
        "nontrivial": "input violates the equality constraint by more than 1e-6*max|x|",
        "min_nontrivial": 30,
    },
    "ineq_object": {
        "strategy": lambda tier: proj_case(tier, ["ineq"]),
        "check": check_object,
        "budget": {"quick": {"examples": 1600, "shards": 6}, "thorough": {"examples": 32000, "shards": 16}},
        "nontrivial": "some operator has an eigenvalue < -1e-6*max|x| and is complex-structured or has a repeated eigenvalue",
        "min_nontrivial": 30,
    },
    "forms": {
        "strategy": forms_case,
        "check": check_forms,
        "budget": {"quick": {"examples": 1200, "shards": 6}, "thorough": {"examples": 24000, "shards": 16}},
        "nontrivial": "as for the object facets, and the projection is not the identity by construction (eq under flag=True)",
        "min_nontrivial": 30,
    },
}
