"""C18 - Lindbladian generators decompose, recompose and exponentiate correctly.

Reference model (pure numpy, this file + harness/refmodel.py, no quara import):

  L(rho) = -i[H, rho] + {J, rho} + sum_{a,b>=1} K_ab B_a rho B_b^dagger            (generalised form)
  GKSL:  J = J(K) = -1/2 sum_ab K_ab B_b^dagger B_a   <=>  Tr L(rho) = 0 for every rho
  jump operators c_k:  L(rho) = sum_k c_k rho c_k^dagger - 1/2 {c_k^dagger c_k, rho}

The forward reference applies the map to every element of a basis of operator space (`ref_hs_gb`, `ref_hs_cb`); the
backward reference (`ref_decompose`) reads (H, J, K) off the process matrix chi_{mu nu} = <<B_mu| Choi |B_nu>> computed
through refmodel.choi_from_hs.  Each case asserts (harness self-check, never a violation) that the two are mutually
inverse on the generated generator.
"""
import functools
import math

import numpy as np
from hypothesis import strategies as st

from harness import build, gen, reps
from harness import refmodel as rm

RULE = (
    "Generators are generated from Hypothesis-drawn data: H = s_h * normalised Hermitian Ginibre matrix, K = U diag(lam) U^dagger "
    "with a drawn unitary (complex / real-orthogonal / identity) and a drawn spectrum (full-rank PSD, rank-deficient, degenerate, "
    "indefinite, zero; strengths s_h, s_k log-uniform over [1e-3, 10]), J = J(K) (GKSL) or J(K) + generic Hermitian or a J without "
    "identity/B_1 component, optional first-row defects, jump-operator sets of 1..d^2 generic / Hermitian / projector matrices, "
    "random-generation settings with drawn int seeds and strengths in [1e-4, 1]; shapes 1q, qutrit, 2q.  Oracles are an independent numpy GKSL superoperator applied to a basis of operator space (Hermitian and "
    "computational basis), a process-matrix based decomposition, eigenvalue clipping by eigh, a Taylor scaling-and-squaring "
    "exponential and refmodel's Choi matrix; verdicts are compared outside the margin band only.  Non-trivial = K has a non-zero "
    "trace and complex off-diagonal entries (the class whose anti-commutator part has an identity component); for the verdict "
    "facet: a defect within two decades of atol or a rank-deficient K; for var_index: d >= 3 or the parametrisation with the "
    "equality constraint; for random_setting: both strengths positive."
)
ASSUMPTIONS = [
    "generator convention L(rho) = -i[H,rho] + {J,rho} + sum K_ab B_a rho B_b^dagger with J(K) = -1/2 sum K_ab B_b^dagger B_a over the "
    "system's orthonormal Hermitian basis (B_0 = I/sqrt(d)); H is compared traceless (an identity shift generates nothing)",
    "strengths are limited to <= 10 so that the imaginary rounding noise of quara's basis change stays below its absolute "
    "truncation threshold 1e-13 (above it quara raises by design); entries below 1e-13 are zeroed by quara, so every tolerance has a 3e-13 floor",
    "the exponential facet exponentiates generators of norm > 0.3 without the constructor-level physicality requirement and judges "
    "the gate by refmodel (Choi min eigenvalue, first row) and by quara's verdict at an explicit tolerance (rounding noise of expm on "
    "boundary generators is not distinguishable from a violation at the default 1e-13); generators of norm <= 0.3 run with the "
    "requirement at the default atol; Settings.atol is never raised around quara's builders because it is also their truncation threshold",
]
TECHNIQUE = (
    "property-based testing (Hypothesis): generated (H, J, K) / jump-operator generators vs an independent numpy GKSL reference on a "
    "basis of operator space; decomposition round trips; slow-vs-sparse differential; verdict margins; expm and semigroup law"
)
LEVEL_TEXT = (
    "Generated-input search over generators (three shapes, all rank / degeneracy classes of K, strengths over four decades, both "
    "basis modes): every builder, extraction routine, part, verdict, projection, exponential and var map is compared with an "
    "independent reference on a full basis of operator space, so equality of superoperators (not only of a few states) is decided "
    "per case.  It cannot prove absence; it covers the generic-dissipator region the pinned examples (zero generator, Pauli "
    "rotations, diagonal K) do not reach."
)
LEVEL_NOTE = (
    "Trusted: numpy LAPACK (qr/eigh), harness/refmodel.py (bases, Choi), the reference GKSL map / decomposition / Taylor expm in "
    "this module (cross-checked against each other on every case)."
)

SHAPES3 = ("1q", "qutrit", "2q")
FLOOR = 3e-13


# ============================================================================= reference model
@functools.lru_cache(maxsize=None)
def _info(shape):
    d = gen.dim_of(shape)
    basis = gen.ref_basis(shape)
    bs = np.array(basis)
    return d, d * d, basis, bs, rm.comp_basis(d)


def tol_for(shape, scale):
    d = gen.dim_of(shape)
    return rm.algebraic_tol(d * d, scale) + FLOOR


def herm_unit(raw, d):
    """Hermitian matrix of spectral norm 1 (or 0) from raw floats."""
    a = rm.ginibre(raw, d, d)
    h = rm.herm(a)
    nrm = float(np.linalg.norm(h, 2))
    if not nrm > 1e-6:
        return np.zeros((d, d), dtype=complex)
    return rm.herm(h / nrm)


def k_from_spec(spec, n1):
    lam = np.asarray(spec["lam"], dtype=float)[:n1]
    if lam.size < n1:
        lam = np.concatenate([lam, np.zeros(n1 - lam.size)])
    rot = spec.get("rot", "complex")
    if rot == "diag":
        u = np.eye(n1, dtype=complex)
    else:
        raw = np.asarray(spec["raw"], dtype=float)
        need = 2 * n1 * n1
        if raw.size < need:
            raw = np.concatenate([raw, np.zeros(need - raw.size)])
        raw = raw[:need].copy()
        if rot == "real":
            raw[n1 * n1:] = 0.0
        u = rm.unitary_from_raw(raw, n1)
    return rm.herm((u * lam) @ u.conj().T), lam


def j_from_k(bs, k):
    """J(K) = -1/2 sum_ab K_ab B_b^dagger B_a  (bs = B_1..B_{n-1})."""
    t = np.tensordot(k, bs, axes=([0], [0]))  # t[b] = sum_a K_ab B_a
    m = np.einsum("bji,bjk->ik", bs.conj(), t)
    return rm.herm(-0.5 * m)


def superop(bs1, h, j, k):
    """rho -> -i[H,rho] + {J,rho} + sum K_ab B_a rho B_b^dagger."""
    bdag = np.conj(np.transpose(bs1, (0, 2, 1)))

    def fn(rho):
        out = -1j * (h @ rho - rho @ h) + j @ rho + rho @ j
        x = bs1 @ rho  # x[a] = B_a rho
        y = np.tensordot(k, x, axes=([0], [0]))  # y[b] = sum_a K_ab B_a rho
        out = out + np.einsum("bij,bjk->ik", y, bdag)
        return out

    return fn


def jump_superop(cs, part="d"):
    def fn(rho):
        out = np.zeros_like(rho, dtype=complex)
        for c in cs:
            cd = c.conj().T
            if part in ("d", "k"):
                out = out + c @ rho @ cd
            if part in ("d", "j"):
                m = cd @ c
                out = out - 0.5 * (m @ rho + rho @ m)
        return out

    return fn


def ref_hs_gb(shape, fn):
    d, n, basis, bs, cb = _info(shape)
    hs = rm.hs_from_map(basis, fn)
    im = float(np.max(np.abs(hs.imag)))
    assert im <= 1e-9 * (1 + float(np.max(np.abs(hs)))), f"reference generator not Hermiticity preserving ({im})"
    return np.real(hs)


def ref_hs_cb(shape, fn):
    d, n, basis, bs, cb = _info(shape)
    return rm.hs_from_map(cb, fn)


def ref_decompose(shape, hs):
    """(H traceless, J, K, chi) of the real Hermitian-basis matrix hs, through the Choi / process matrix."""
    d, n, basis, bs, cb = _info(shape)
    choi = rm.choi_from_hs(basis, np.asarray(hs, dtype=float))
    m = bs.reshape(n, d * d)
    chi = m.conj() @ choi @ m.T
    a = chi[0, 0] / 2 * basis[0]
    for i in range(1, n):
        a = a + chi[i, 0] * basis[i]
    a = a / math.sqrt(d)
    j = rm.herm(a)
    h = rm.herm(1j * (a - a.conj().T) / 2)
    k = chi[1:, 1:]
    return h, j, k, chi


def traceless(h):
    d = h.shape[0]
    return h - np.trace(h) / d * np.eye(d)


def expm_ref(a):
    """Taylor scaling-and-squaring exponential (own implementation)."""
    a = np.asarray(a, dtype=float)
    nrm = float(np.linalg.norm(a, 1))
    s = 0 if nrm <= 0.25 else int(math.ceil(math.log2(nrm / 0.25)))
    x = a / (2.0 ** s)
    term = np.eye(a.shape[0])
    out = np.eye(a.shape[0])
    for i in range(1, 25):
        term = term @ x / i
        out = out + term
    for _ in range(s):
        out = out @ out
    return out


def ref_gen(g):
    """generator spec -> dict(H, J, K, hs, lam, scale).  Pure numpy."""
    shape = g["shape"]
    d, n, basis, bs, cb = _info(shape)
    h = float(g["h"]["s"]) * herm_unit(g["h"]["raw"], d)
    k, lam = k_from_spec(g["k"], n - 1)
    jk = j_from_k(bs[1:], k)
    js = g.get("j") or {"kind": "from_k"}
    if js["kind"] == "from_k":
        j = jk
    else:
        j = rm.herm(jk + float(js["s"]) * herm_unit(js["raw"], d))
        if js["kind"] == "no_b0_b1":
            c0 = np.vdot(basis[0], j)
            c1 = np.vdot(basis[1], j)
            j = rm.herm(j - c0 * basis[0] - c1 * basis[1])
    hs = ref_hs_gb(shape, superop(bs[1:], h, j, k))
    for col, val in g.get("row0") or []:
        hs[0, int(col) % n] += float(val)
    scale = float(np.max(np.abs(hs))) + float(np.linalg.norm(k, 2)) + float(np.linalg.norm(h, 2))
    return {"H": h, "J": j, "K": k, "hs": hs, "lam": lam, "scale": scale, "has_row0": bool(g.get("row0"))}


def selfcheck(shape, r):
    """forward and backward references are mutually inverse on this generator (harness error otherwise)."""
    d, n, basis, bs, cb = _info(shape)
    h2, j2, k2, _ = ref_decompose(shape, r["hs"])
    tol = tol_for(shape, r["scale"])
    if not r["has_row0"]:
        assert np.max(np.abs(h2 - traceless(r["H"]))) <= tol, "selfcheck H"
        assert np.max(np.abs(j2 - r["J"])) <= tol, "selfcheck J"
        assert np.max(np.abs(k2 - r["K"])) <= tol, "selfcheck K"
    hs2 = ref_hs_gb(shape, superop(bs[1:], h2, j2, k2))
    assert np.max(np.abs(hs2 - r["hs"])) <= tol, "selfcheck recomposition"
    return h2, j2, k2


def k_is_nontrivial(k):
    off = k - np.diag(np.diag(k))
    return bool(abs(np.trace(k)) > 1e-9 and np.max(np.abs(off.imag), initial=0.0) > 1e-9)


def _assert_basis(c_sys, shape):
    d, n, basis, bs, cb = _info(shape)
    qb = build.quara_basis_matrices(c_sys)
    assert len(qb) == n and max(float(np.max(np.abs(a - b))) for a, b in zip(qb, basis)) < 1e-15, "basis mismatch"


# ============================================================================= strategies
def _shape_st(tier):
    if tier == "quick":
        return st.sampled_from(["1q", "1q", "1q", "qutrit", "qutrit", "2q"])
    return st.sampled_from(["1q", "qutrit", "2q"])


@st.composite
def h_spec(draw, d, zero_ok=True):
    s = draw(gen.log_uniform(1e-3, 10.0))
    if zero_ok and draw(st.integers(0, 9)) == 0:
        return {"raw": [0.0] * (2 * d * d), "s": s}
    return {"raw": draw(gen.raw(2 * d * d)), "s": s}


K_KINDS_ALL = ("psd", "psd", "rankdef", "degenerate", "indef", "indef", "degenerate_indef", "zero")
K_KINDS_PSD = ("psd", "psd", "psd", "rankdef", "rankdef", "degenerate", "zero")


@st.composite
def k_spec(draw, n1, kinds=K_KINDS_ALL, s_hi=10.0):
    kind = draw(st.sampled_from(kinds))
    rot = draw(st.sampled_from(["complex", "complex", "complex", "complex", "real", "diag"]))
    s = draw(gen.log_uniform(1e-3, s_hi))
    if kind == "zero":
        lam = [0.0] * n1
    elif kind in ("degenerate", "degenerate_indef"):
        vals = [1.0, 1.0, 0.5, 0.0] if kind == "degenerate" else [1.0, 0.5, 0.0, -1.0, -0.5]
        lam = [s * v for v in draw(st.lists(st.sampled_from(vals), min_size=n1, max_size=n1))]
    else:
        mags = draw(st.lists(gen.log_uniform(1e-2, 1.0), min_size=n1, max_size=n1))
        lam = [s * m for m in mags]
        if kind == "rankdef":
            zm = draw(st.lists(st.booleans(), min_size=n1, max_size=n1))
            if not any(zm):
                zm[-1] = True
            if all(zm):
                zm[0] = False
            lam = [0.0 if z else x for z, x in zip(zm, lam)]
        if kind == "nearly_psd":
            # just outside the cone: one eigenvalue is negative and tiny (between rounding noise and 1e-7), the others O(s)
            j = draw(st.integers(0, n1 - 1))
            lam[j] = -draw(gen.log_uniform(1e-12, 1e-7))
        if kind == "indef":
            sg = draw(st.lists(st.sampled_from([1.0, 1.0, -1.0]), min_size=n1, max_size=n1))
            if all(x > 0 for x in sg):
                sg[0] = -1.0
            lam = [a * b for a, b in zip(sg, lam)]
    spec = {"kind": kind, "rot": rot, "lam": [float(x) for x in lam], "s": s}
    spec["raw"] = draw(gen.raw(2 * n1 * n1)) if rot != "diag" else []
    return spec


@st.composite
def j_spec(draw, d, kinds=("from_k", "from_k", "generic", "no_b0_b1")):
    kind = draw(st.sampled_from(kinds))
    if kind == "from_k":
        return {"kind": kind}
    return {"kind": kind, "raw": draw(gen.raw(2 * d * d)), "s": draw(gen.log_uniform(1e-3, 10.0))}


@st.composite
def row0_spec(draw, n, p=3):
    if draw(st.integers(0, p)) != 0:
        return []
    cnt = draw(st.integers(1, 3))
    return [[draw(st.integers(0, n - 1)), draw(gen.log_uniform(1e-6, 1.0)) * draw(st.sampled_from([1.0, -1.0]))] for _ in range(cnt)]


@st.composite
def gen_spec(draw, tier, k_kinds=K_KINDS_ALL, j_kinds=("from_k", "from_k", "generic", "no_b0_b1"), row0=False, s_hi=10.0):
    shape = draw(_shape_st(tier))
    d = gen.dim_of(shape)
    n = d * d
    g = {"shape": shape, "h": draw(h_spec(d)), "k": draw(k_spec(n - 1, k_kinds, s_hi)), "j": draw(j_spec(d, j_kinds))}
    g["row0"] = draw(row0_spec(n)) if row0 else []
    return g


# ============================================================================= known-finding predicates
def _gen_of(case):
    return case.get("g")


def pred_j_identity_or_b1(case):
    """C18-F1 region: the anti-commutator matrix J of the generator under test has a B_0 or B_1 component."""
    g = _gen_of(case)
    if g is None:
        return False
    shape = g["shape"]
    d, n, basis, bs, cb = _info(shape)
    r = ref_gen(_effective_gen(case))
    _, j, _, _ = ref_decompose(shape, r["hs"])
    c0 = abs(np.vdot(basis[0], j))
    c1 = abs(np.vdot(basis[1], j))
    return bool(max(c0, c1) > 1e-13)


def pred_jump_sum_differs(case):
    """C18-F2 region: sum_k c_k != sum_k c_k^dagger c_k (the j part is built from c instead of c^dagger c)."""
    if "jump" not in case:
        return False
    cs = jump_ops(case)
    a = sum(cs)
    b = sum(c.conj().T @ c for c in cs)
    return bool(np.max(np.abs(a - b)) > 1e-13)


def pred_always(case):
    return True


def pred_eq_constraint_flag(case):
    """C18-F4 region: on_para_eq_constraint=True."""
    return bool(case.get("flag"))


def pred_k_near_degenerate_positive(case):
    """C18-F5 region: K (of the generator under test) has two positive eigenvalues closer than 1e-3 relative."""
    g = _gen_of(case)
    if g is None:
        return False
    r = ref_gen(_effective_gen(case))
    _, _, k, _ = ref_decompose(g["shape"], r["hs"])
    w = np.linalg.eigvalsh(rm.herm(k))
    top = float(np.max(np.abs(w), initial=0.0))
    if top == 0:
        return False
    pos = np.sort(w[w > 1e-12 * top])
    if pos.size < 2:
        return False
    return bool(np.min(np.diff(pos) / pos[1:]) < 1e-3)


def _effective_gen(case):
    """the generator spec a facet actually builds (verdict facet overrides the spectrum)."""
    g = dict(case["g"])
    if "defect" in case:
        g["k"] = _verdict_k_spec(case)
        g["row0"] = _verdict_row0(case)
    return g


# ============================================================================= facet: gksl_action
def jump_ops(case):
    js = case["jump"]
    d = gen.dim_of(case["shape"])
    out = []
    raw = np.asarray(js["raw"], dtype=float)
    per = 2 * d * d
    for i in range(js["n"]):
        r = raw[i * per:(i + 1) * per]
        s = float(js["s"][i])
        if js["kind"] == "generic":
            c = rm.ginibre(r, d, d)
            nrm = float(np.linalg.norm(c, 2))
            c = s * c / nrm if nrm > 1e-6 else np.zeros((d, d), dtype=complex)
        elif js["kind"] == "hermitian":
            c = s * herm_unit(r, d)
        else:  # projector of rank rk (c^dagger c = c)
            u = rm.unitary_from_raw(r, d)
            rk = 1 + (i % d)
            c = u[:, :rk] @ u[:, :rk].conj().T
        out.append(np.asarray(c, dtype=complex))
    return out


@st.composite
def action_case(draw, tier):
    builder = draw(st.sampled_from(["h", "hk", "hk", "k", "hjk", "hjk", "jump", "jump", "ham_typical"]))
    if builder == "jump":
        shape = draw(_shape_st(tier))
        d = gen.dim_of(shape)
        n_j = draw(st.integers(1, d * d))
        kind = draw(st.sampled_from(["generic", "generic", "hermitian", "projector"]))
        case = {"builder": builder, "shape": shape,
                "jump": {"kind": kind, "n": n_j, "raw": draw(gen.raw(2 * d * d * n_j)),
                         "s": [draw(gen.log_uniform(1e-2, 1.5)) for _ in range(n_j)]}}
    else:
        jk = ("generic", "generic", "no_b0_b1", "from_k") if builder == "hjk" else ("from_k",)
        g = draw(gen_spec(tier, j_kinds=jk))
        case = {"builder": builder, "shape": g["shape"], "g": g}
    d = gen.dim_of(case["shape"])
    case["state"] = {"raw_u": draw(gen.raw(2 * d * d)), "raw_p": draw(gen.raw(d))}
    case["required"] = draw(st.booleans())
    return case


def check_action(case, ctx):
    from quara.objects import effective_lindbladian as el

    shape = case["shape"]
    builder = case["builder"]
    d, n, basis, bs, cb = _info(shape)
    c_sys = build.c_sys_for(shape)
    _assert_basis(c_sys, shape)
    rho = rm.density_from_raw(case["state"]["raw_u"], case["state"]["raw_p"], d)
    ctx.label(shape, "builder:" + builder)

    if builder == "jump":
        cs = jump_ops(case)
        scale = float(sum(np.linalg.norm(c, 2) ** 2 + np.linalg.norm(c, 2) for c in cs))
        tol = tol_for(shape, scale)
        ctx.label("jump:" + case["jump"]["kind"], "njump:%d" % min(len(cs), 5))
        qb = c_sys.basis()
        refs = {p: (ref_hs_cb(shape, jump_superop(cs, p)), ref_hs_gb(shape, jump_superop(cs, p))) for p in ("k", "j", "d")}
        ctx.close(el.generate_k_part_cb_from_jump_operators(cs), refs["k"][0], tol, "jump_k_part_cb")
        ctx.close(el.generate_k_part_gb_from_jump_operators(cs, qb), refs["k"][1], tol, "jump_k_part_gb")
        ctx.close(el.generate_j_part_cb_from_jump_operators(cs), refs["j"][0], tol, "jumpj:j_part_cb")
        ctx.close(el.generate_j_part_gb_from_jump_operators(cs, qb), refs["j"][1], tol, "jumpj:j_part_gb")
        ctx.close(el.generate_d_part_cb_from_jump_operators(cs), refs["d"][0], tol, "jumpj:d_part_cb")
        ctx.close(el.generate_d_part_gb_from_jump_operators(cs, qb), refs["d"][1], tol, "jumpj:d_part_gb")
        try:
            lind = el.generate_effective_lindbladian_from_jump_operators(c_sys, cs, is_physicality_required=case["required"])
        except ValueError as e:
            # a GKSL generator built from jump operators is physical by construction
            ctx.check(False, "jumpj:generator_physical", f"constructor raised {e}")
            lind = el.generate_effective_lindbladian_from_jump_operators(c_sys, cs, is_physicality_required=False)
        ctx.close(lind.hs, refs["d"][1], tol, "jumpj:action_gb")
        ctx.close(lind.convert_to_comp_basis(), refs["d"][0], tol, "jumpj:action_cb")
        img = rm.unvec(basis, np.asarray(lind.hs) @ rm.vec(basis, rho))
        ctx.close(img, jump_superop(cs)(rho), tol, "jumpj:action_state")
        ctx.nontrivial(case["jump"]["kind"] != "projector" and float(np.max(np.abs(np.array(cs).imag))) > 1e-9)
        return

    r = ref_gen(case["g"])
    selfcheck(shape, r)
    h, j, k = r["H"], r["J"], r["K"]
    tol = tol_for(shape, r["scale"])
    zero_k = np.zeros_like(k)
    zero_d = np.zeros((d, d), dtype=complex)
    ctx.label("k:" + case["g"]["k"]["kind"], "rot:" + case["g"]["k"]["rot"])

    if builder == "ham_typical":
        from quara.objects import effective_lindbladian_typical as elt

        fn = superop(bs[1:], h, zero_d, zero_k)
        ctx.close(elt.calc_effective_lindbladian_mat_comp_basis_from_hamiltonian(h), ref_hs_cb(shape, fn), tol, "typical_h_cb")
        ctx.close(elt.calc_effective_lindbladian_mat_from_hamiltonian(h, c_sys.basis()), ref_hs_gb(shape, fn).astype(complex), tol,
                  "typical_h_gb_complex")
        ctx.close(elt.calc_effective_lindbladian_mat_hermitian_basis_from_hamiltonian(h, c_sys.basis()), ref_hs_gb(shape, fn), tol,
                  "typical_h_gb")
        # the general routine documents "an orthonormal matrix basis": the (non-Hermitian) computational bases, row- and
        # column-major, are such bases
        from quara.objects.matrix_basis import get_comp_basis

        ctx.close(elt.calc_effective_lindbladian_mat_from_hamiltonian(h, get_comp_basis(d)), ref_hs_cb(shape, fn), tol,
                  "typical_h_to_comp_basis:row_major")
        ctx.close(elt.calc_effective_lindbladian_mat_from_hamiltonian(h, get_comp_basis(d, mode="column_major")),
                  rm.hs_from_map(rm.comp_basis(d, "column_major"), fn), tol, "typical_h_to_comp_basis:column_major")
        ctx.nontrivial(float(np.max(np.abs(h.imag))) > 1e-9)
        return

    psd = bool(np.min(case["g"]["k"]["lam"]) >= 0)
    small = r["scale"] <= 4.0  # rounding noise of the extracted K stays two decades below the default atol 1e-13
    if builder == "h":
        fn = superop(bs[1:], h, zero_d, zero_k)
        req = case["required"] and small
        lind = el.generate_effective_lindbladian_from_h(c_sys, reps.layout(h, "h"), is_physicality_required=req)
        hs2 = el.generate_hs_from_h(c_sys, reps.layout(h, "h2"))
    elif builder == "hk":
        fn = superop(bs[1:], h, j, k)
        req = case["required"] and psd and small
        lind = el.generate_effective_lindbladian_from_hk(c_sys, reps.layout(h, "h"), reps.layout(k, "k"), is_physicality_required=req)
        hs2 = el.generate_hs_from_hk(c_sys, reps.layout(h, "h2"), reps.layout(k, "k2"))
    elif builder == "k":
        fn = superop(bs[1:], zero_d, j, k)
        req = case["required"] and psd and small
        lind = el.generate_effective_lindbladian_from_k(c_sys, reps.layout(k, "k"), is_physicality_required=req)
        hs2 = el.generate_hs_from_k(c_sys, reps.layout(k, "k2"))
    else:  # hjk with an arbitrary Hermitian J
        fn = superop(bs[1:], h, j, k)
        req = False
        lind = el.generate_effective_lindbladian_from_hjk(c_sys, h, j, k, is_physicality_required=False)
        hs2 = el.generate_hs_from_hjk(c_sys, h, j, k)
    ctx.label("required:%s" % req)
    ref_gb = ref_hs_gb(shape, fn)
    ref_cb = ref_hs_cb(shape, fn)
    ctx.check(isinstance(lind, el.EffectiveLindbladian), f"type:{builder}")
    ctx.check(np.asarray(lind.hs).dtype == np.float64, f"dtype:{builder}")
    ctx.close(lind.hs, ref_gb, tol, f"action_gb:{builder}")
    ctx.close(hs2, ref_gb, tol, f"generate_hs:{builder}")
    ctx.close(lind.convert_to_comp_basis(), ref_cb, tol, f"action_cb:{builder}")
    img = rm.unvec(basis, np.asarray(lind.hs) @ rm.vec(basis, rho))
    ctx.close(img, fn(rho), tol, f"action_state:{builder}")
    if builder in ("hk", "k"):
        # a GKSL generator preserves the trace of every operator
        ctx.close(np.array([np.trace(fn(b)) for b in basis]), np.zeros(n), tol, "ref_trace_preserving")
    ctx.nontrivial(builder != "h" and k_is_nontrivial(k))


# ============================================================================= facet: decompose_recompose
@st.composite
def decompose_case(draw, tier):
    g = draw(gen_spec(tier, row0=False))
    return {"g": g, "shape": g["shape"]}


def check_decompose(case, ctx):
    from quara.objects import effective_lindbladian as el

    g = case["g"]
    shape = g["shape"]
    d, n, basis, bs, cb = _info(shape)
    c_sys = build.c_sys_for(shape)
    _assert_basis(c_sys, shape)
    r = ref_gen(g)
    selfcheck(shape, r)
    h, j, k, hs = r["H"], r["J"], r["K"], r["hs"]
    tol = tol_for(shape, r["scale"])
    ctx.label(shape, "k:" + g["k"]["kind"], "rot:" + g["k"]["rot"], "j:" + g["j"]["kind"])
    lind = el.EffectiveLindbladian(c_sys, hs.copy(), is_physicality_required=False)

    # ---- extraction
    hm, jm, km = lind.calc_h_mat(), lind.calc_j_mat(), lind.calc_k_mat()
    ctx.close(hm, traceless(h), tol, "h_mat")
    ctx.close(km, k, tol, "k_mat")
    ctx.close(jm, j, tol, "jdep:j_mat")

    # ---- rebuild from the extracted matrices
    try:
        rebuilt = el.generate_effective_lindbladian_from_hjk(c_sys, hm, jm, km, is_physicality_required=False)
    except ValueError as e:
        rebuilt = None
        ctx.check(False, "recompose_accepts_extracted", f"from_hjk rejected the extracted matrices: {e}")
    if rebuilt is not None:
        ctx.close(rebuilt.hs, hs, tol, "jdep:recompose")

    # ---- parts, both bases
    zero_k = np.zeros_like(k)
    zero_d = np.zeros((d, d), dtype=complex)
    fns = {
        "h": superop(bs[1:], h, zero_d, zero_k),
        "j": superop(bs[1:], zero_d, j, zero_k),
        "k": superop(bs[1:], zero_d, zero_d, k),
        "d": superop(bs[1:], zero_d, j, k),
    }
    for mode in ("hermitian_basis", "comp_basis"):
        ref = (lambda f: ref_hs_gb(shape, f)) if mode == "hermitian_basis" else (lambda f: ref_hs_cb(shape, f))
        parts = {
            "h": lind.calc_h_part(mode_basis=mode),
            "j": lind.calc_j_part(mode_basis=mode),
            "k": lind.calc_k_part(mode_basis=mode),
            "d": lind.calc_d_part(mode_basis=mode),
        }
        ctx.close(parts["h"], ref(fns["h"]), tol, f"h_part:{mode}")
        ctx.close(parts["k"], ref(fns["k"]), tol, f"k_part:{mode}")
        ctx.close(parts["j"], ref(fns["j"]), tol, f"jdep:j_part:{mode}")
        ctx.close(parts["d"], ref(fns["d"]), tol, f"jdep:d_part:{mode}")
        whole = hs if mode == "hermitian_basis" else ref_hs_cb(shape, superop(bs[1:], h, j, k))
        ctx.close(np.asarray(parts["h"]) + np.asarray(parts["j"]) + np.asarray(parts["k"]), whole, 3 * tol, f"jdep:parts_sum:{mode}")
        ctx.close(np.asarray(parts["d"]), np.asarray(parts["j"]) + np.asarray(parts["k"]), 3 * tol, f"d_is_j_plus_k:{mode}")
    ctx.raises(ValueError, lambda: lind.calc_h_part(mode_basis="other"), "mode_basis_rejected")

    # ---- slow vs sparse implementations (cache tables of the composite system)
    jk_ref = j_from_k(bs[1:], k)
    j_sparse = el._calc_j_mat_from_k_mat_with_sparsity(k, c_sys)
    j_slow = el._calc_j_mat_from_k_mat_slowly(k, c_sys)
    ctx.close(j_sparse, jk_ref, tol, "j_from_k_sparse")
    ctx.close(j_slow, jk_ref, tol, "j_from_k_slow")
    ctx.close(el._calc_j_mat_from_k_mat(k, c_sys), jk_ref, tol, "j_from_k_default")
    kp_ref = ref_hs_cb(shape, fns["k"])
    ctx.close(el._calc_k_part_from_k_mat_with_sparsity(k, c_sys), kp_ref, tol, "k_part_sparse")
    ctx.close(el._calc_k_part_from_slowly(k, c_sys), kp_ref, tol, "k_part_slow")
    # a second system (fresh cache) gives the same table-based result bit for bit
    c_sys2 = build.c_sys_for(shape)
    ctx.equal(np.asarray(el._calc_k_part_from_k_mat_with_sparsity(k, c_sys2)),
              np.asarray(el._calc_k_part_from_k_mat_with_sparsity(k, c_sys)), "k_part_sparse_cache_independent")
    ctx.equal(np.asarray(lind.hs), hs, "input_not_mutated")
    ctx.nontrivial(k_is_nontrivial(k))


# ============================================================================= facet: verdicts
def _verdict_k_spec(case):
    spec = dict(case["g"]["k"])
    df = case["defect"]
    lam = list(spec["lam"])
    if df["kind"] in ("ineq", "both"):
        idx = int(df["idx"]) % len(lam)
        lam[idx] = -float(df["eps_in"])
    spec["lam"] = lam
    return spec


def _verdict_row0(case):
    df = case["defect"]
    if df["kind"] in ("eq", "both"):
        return [[int(df["col"]), float(df["sign"]) * float(df["eps_eq"])]]
    return []


def _eps_st(atol):
    @st.composite
    def f(draw):
        band = draw(st.sampled_from(["below", "above", "far"]))
        if band == "below":
            ratio = draw(gen.log_uniform(1e-3, 0.09))
        elif band == "above":
            ratio = draw(gen.log_uniform(11.0, 1e3))
        else:
            ratio = draw(gen.log_uniform(1e3, max(1e3 + 1, 0.5 / atol)))
        return float(min(ratio * atol, 0.5))

    return f()


@st.composite
def verdict_case(draw, tier):
    g = draw(gen_spec(tier, k_kinds=K_KINDS_PSD, j_kinds=("from_k",)))
    atol = draw(gen.log_uniform(1e-12, 1e-2))
    kind = draw(st.sampled_from(["ineq", "eq", "both", "eq", "ineq", "none"]))
    df = {"kind": kind, "eps_eq": draw(_eps_st(atol)), "eps_in": draw(_eps_st(atol)),
          "col": draw(st.integers(0, 15)), "idx": draw(st.integers(0, 14)), "sign": draw(st.sampled_from([1.0, -1.0]))}
    return {"g": g, "shape": g["shape"], "atol": atol, "defect": df, "via_settings": draw(st.booleans())}


def _expected(lo, hi, atol):
    if hi <= atol / 10:
        return True
    if lo >= 10 * atol:
        return False
    return None


def check_verdicts(case, ctx):
    from quara.objects.effective_lindbladian import EffectiveLindbladian
    from quara.settings import Settings

    shape = case["shape"]
    d, n, basis, bs, cb = _info(shape)
    c_sys = build.c_sys_for(shape)
    g = _effective_gen(case)
    r = ref_gen(g)
    hs = r["hs"]
    atol = float(case["atol"])
    _, _, k_ref, _ = ref_decompose(shape, hs)
    w = np.linalg.eigvalsh(rm.herm(k_ref))
    eq_def = float(np.max(np.abs(hs[0])))
    in_def = max(0.0, -float(w[0]))
    noise = 20 * 2.2e-16 * n * (1 + r["scale"])
    e_eq = _expected(eq_def, eq_def, atol)  # is_tp reads the stored first row: no rounding involved
    e_in = _expected(in_def - noise, in_def + noise, atol)
    ctx.label(shape, "defect:" + case["defect"]["kind"], "k:" + case["g"]["k"]["kind"])
    lind = EffectiveLindbladian(c_sys, hs.copy(), is_physicality_required=False)

    if case["via_settings"]:
        Settings.set_atol(atol)
        try:
            v_tp, v_cp, v_ph = lind.is_tp(), lind.is_cp(), lind.is_physical()
            v_eq, v_in = lind.is_eq_constraint_satisfied(), lind.is_ineq_constraint_satisfied()
        finally:
            Settings.set_atol(1e-13)
        ctx.label("atol:settings")
    else:
        v_tp, v_cp, v_ph = lind.is_tp(atol), lind.is_cp(atol), lind.is_physical(atol, atol)
        v_eq, v_in = lind.is_eq_constraint_satisfied(atol), lind.is_ineq_constraint_satisfied(atol)
        ctx.label("atol:explicit")
    ctx.label("exp_tp:%s" % e_eq, "exp_cp:%s" % e_in)
    if e_eq is None or e_in is None:
        ctx.label("margin-band")
    if e_eq is not None:
        ctx.check(bool(v_tp) == e_eq, "is_tp", f"is_tp={v_tp} first-row defect {eq_def:.3e} atol {atol:.3e}")
    if e_in is not None:
        ctx.check(bool(v_cp) == e_in, "is_cp", f"is_cp={v_cp} lambda_min(K)={-in_def if in_def else float(w[0]):.3e} atol {atol:.3e}")
    ctx.check(bool(v_eq) == bool(v_tp) and bool(v_in) == bool(v_cp), "constraint_aliases", f"{v_eq} {v_tp} {v_in} {v_cp}")
    ctx.check(bool(v_ph) == (bool(v_tp) and bool(v_cp)), "is_physical_conjunction", f"{v_ph} {v_tp} {v_cp}")

    # the SAME object asked again after the global tolerance changed: the verdict is that of the tolerance in force now
    atol2 = float(min(1e-2, max(1e-15, atol * (1e3 if reps.pick(repr(hs.tolist()), 2) else 1e-3))))
    Settings.set_atol(atol2)
    try:
        w_tp, w_cp, w_ph = lind.is_tp(), lind.is_cp(), lind.is_physical()
    finally:
        Settings.set_atol(1e-13)
    f_eq = _expected(eq_def, eq_def, atol2)
    f_in = _expected(in_def - noise, in_def + noise, atol2)
    if f_eq is not None:
        ctx.check(bool(w_tp) == f_eq, "is_tp:same_object_after_global_atol_changed", f"is_tp={w_tp} defect {eq_def:.3e} atol now {atol2:.3e} (was {atol:.3e})")
    if f_in is not None:
        ctx.check(bool(w_cp) == f_in, "is_cp:same_object_after_global_atol_changed", f"is_cp={w_cp} defect {in_def:.3e} atol now {atol2:.3e} (was {atol:.3e})")
        if e_in is not None and f_in != e_in:
            ctx.label("verdict-flips-with-global-atol")
    ctx.check(bool(w_ph) == (bool(w_tp) and bool(w_cp)), "is_physical_conjunction:after_global_atol_changed", f"{w_ph} {w_tp} {w_cp}")

    # constructor raises exactly when not physical at the global tolerance
    if e_eq is not None and e_in is not None:
        exp = e_eq and e_in
        Settings.set_atol(atol)
        try:
            ok, err = True, None
            try:
                EffectiveLindbladian(c_sys, hs.copy(), is_physicality_required=True)
            except ValueError as e:
                ok, err = False, e
        finally:
            Settings.set_atol(1e-13)
        ctx.check(ok == exp, "constructor", f"constructor {'succeeded' if ok else 'raised ' + str(err)[:60]}; eq defect {eq_def:.3e} "
                                            f"ineq defect {in_def:.3e} atol {atol:.3e}")
    # monotone in atol (exact)
    for name, fn in (("is_tp", lind.is_tp), ("is_cp", lind.is_cp)):
        if fn(atol):
            ctx.check(bool(fn(atol * 7.0)), "atol_monotone", f"{name} true at {atol:.3e} false at {7 * atol:.3e}")
    near = any(x > 0 and 1e-2 <= x / atol <= 1e2 for x in (eq_def, in_def))
    boundary = bool(np.min(np.abs(w)) <= 1e-12 * max(1.0, float(np.max(np.abs(w)))))
    if near:
        ctx.label("near-threshold")
    if boundary:
        ctx.label("boundary")
    ctx.nontrivial(near or boundary)


# ============================================================================= facet: exponential
@st.composite
def exponential_case(draw, tier):
    g = draw(gen_spec(tier, k_kinds=K_KINDS_PSD, j_kinds=("from_k",), s_hi=3.0))
    d = gen.dim_of(g["shape"])
    return {"g": g, "shape": g["shape"], "s": draw(gen.log_uniform(1e-2, 3.0)), "t": draw(gen.log_uniform(1e-2, 3.0)),
            "state": {"raw_u": draw(gen.raw(2 * d * d)), "raw_p": draw(gen.raw(d))}}


def check_exponential(case, ctx):
    from quara.objects import effective_lindbladian as el
    from quara.objects.gate import Gate
    from quara.settings import Settings

    g = case["g"]
    shape = g["shape"]
    d, n, basis, bs, cb = _info(shape)
    c_sys = build.c_sys_for(shape)
    r = ref_gen(g)
    selfcheck(shape, r)
    h, k, hs = r["H"], r["K"], r["hs"]
    nrm = float(np.linalg.norm(hs, 1))
    s, t = float(case["s"]), float(case["t"])
    big = nrm * max(2.0, s + t) > 0.3 or r["scale"] > 0.3
    tol = tol_for(shape, r["scale"] + nrm * max(2.0, s + t))
    ctx.label(shape, "k:" + g["k"]["kind"], "norm:" + ("big" if big else "small"))
    rho = rm.density_from_raw(case["state"]["raw_u"], case["state"]["raw_p"], d)
    # Generators of norm <= 0.3 are built and exponentiated with the physicality requirement at the default atol
    # (rounding noise ~1e-15); larger ones without it (expm noise on boundary generators is not separable from a
    # violation at 1e-13, and raising Settings.atol would also raise quara's truncation threshold) and are judged
    # by refmodel and by quara's verdict at an explicit tolerance.
    req = not big
    lind = el.generate_effective_lindbladian_from_hk(c_sys, reps.layout(h, "h"), reps.layout(k, "k"), is_physicality_required=req)
    gate = lind.to_gate()
    ctx.check(type(gate) is Gate, "to_gate_type", str(type(gate)))
    ghs = np.asarray(gate.hs)
    ctx.check(ghs.dtype == np.float64 and ghs.shape == (n, n), "to_gate_shape")
    ctx.close(ghs, expm_ref(hs), tol, "to_gate_equals_expm_of_reference")
    ctx.close(ghs, expm_ref(np.asarray(lind.hs)), tol, "to_gate_equals_expm")
    # CPTP by refmodel
    e0 = np.zeros(n)
    e0[0] = 1.0
    ctx.close(ghs[0], e0, tol, "to_gate_tp")
    choi = rm.choi_from_hs(basis, ghs)
    ctx.leq(-rm.min_eig(choi), 0.0, tol * d, "to_gate_cp")
    vt = max(1e-13, 100 * tol * d)
    ctx.check(bool(gate.is_physical(vt, vt)), "to_gate_is_physical", f"at tolerance {vt:.1e}")
    out = rm.apply_hs(basis, ghs, rho)
    ctx.close(np.trace(out), 1.0, tol * d, "to_gate_state_trace")
    ctx.leq(-rm.min_eig(out), 0.0, tol * d, "to_gate_state_psd")
    # semigroup law
    l2 = el.EffectiveLindbladian(c_sys, 2.0 * np.asarray(lind.hs), is_physicality_required=req)
    ctx.close(ghs @ ghs, l2.to_gate().hs, tol, "semigroup_double")
    ls = el.EffectiveLindbladian(c_sys, s * np.asarray(lind.hs), is_physicality_required=req)
    lt = el.EffectiveLindbladian(c_sys, t * np.asarray(lind.hs), is_physicality_required=req)
    lst = el.EffectiveLindbladian(c_sys, (s + t) * np.asarray(lind.hs), is_physicality_required=req)
    gs, gt, gst = ls.to_gate().hs, lt.to_gate().hs, lst.to_gate().hs
    ctx.close(np.asarray(gs) @ np.asarray(gt), gst, tol, "semigroup_additive")
    ctx.close(np.asarray(gt) @ np.asarray(gs), gst, tol, "semigroup_commutes")
    # flags are carried over
    ctx.check(gate.composite_system is c_sys and gate.is_physicality_required is req, "to_gate_flags")
    ctx.label("required:%s" % req)
    ctx.nontrivial(k_is_nontrivial(k))


# ============================================================================= facet: projections
@st.composite
def projection_case(draw, tier):
    which = draw(st.sampled_from(["eq", "ineq", "ineq", "ineq"]))
    if which == "eq":
        g = draw(gen_spec(tier, row0=True))
        if not g["row0"]:
            g["row0"] = [[0, 0.25], [1, -0.5]]
    else:
        kk = K_KINDS_ALL + ("psd", "rankdef", "zero", "nearly_psd", "nearly_psd")
        g = draw(gen_spec(tier, k_kinds=kk, j_kinds=("from_k", "from_k", "from_k", "generic", "no_b0_b1"), row0=True))
    return {"g": g, "shape": g["shape"], "which": which, "flag": draw(st.booleans()), "required": draw(st.booleans())}


def check_projections(case, ctx):
    from quara.objects.effective_lindbladian import EffectiveLindbladian

    g = case["g"]
    shape = g["shape"]
    d, n, basis, bs, cb = _info(shape)
    c_sys = build.c_sys_for(shape)
    r = ref_gen(g)
    h_r, j_r, k_r = selfcheck(shape, r)
    hs = r["hs"]
    tol = tol_for(shape, r["scale"])
    ctx.label(shape, "proj:" + case["which"], "k:" + g["k"]["kind"], "j:" + g["j"]["kind"], "row0:%s" % bool(g["row0"]))

    if case["which"] == "eq":
        lind = EffectiveLindbladian(c_sys, hs.copy(), is_physicality_required=False, on_para_eq_constraint=case["flag"])
        p = lind.calc_proj_eq_constraint()
        phs = np.asarray(p.hs)
        ctx.check(type(p) is EffectiveLindbladian and p is not lind, "proj_eq_type")
        ctx.check(phs.shape == (n, n), "proj_eq_shape")
        ctx.equal(phs[0], np.zeros(n), "proj_eq_first_row_zero")
        ctx.equal(phs[1:], hs[1:], "proj_eq_rest_bit_identical")
        ctx.equal(np.asarray(lind.hs), hs, "proj_eq_input_not_mutated")
        ctx.check(p.on_para_eq_constraint == case["flag"] and p.composite_system is c_sys, "proj_eq_flags")
        ctx.check(bool(p.is_tp(0.0)), "proj_eq_is_tp")
        ctx.nontrivial(k_is_nontrivial(r["K"]))
        return

    w, v = np.linalg.eigh(rm.herm(k_r))
    k_clip = rm.herm((v * np.maximum(w, 0.0)) @ v.conj().T)
    top = max(1.0, float(np.max(np.abs(w), initial=0.0)))
    physical = bool(w[0] >= 0.0 and g["j"]["kind"] == "from_k" and not g["row0"] and float(np.max(np.abs(hs[0]))) <= tol)
    ctx.label("input_physical:%s" % physical)
    required = bool(case["required"] and physical and r["scale"] <= 4.0)
    lind = EffectiveLindbladian(c_sys, hs.copy(), is_physicality_required=required, on_para_eq_constraint=case["flag"])
    try:
        p = lind.calc_proj_ineq_constraint()
    except ValueError as e:
        if not required:
            raise
        # the projection of a physical generator must be (that same) physical generator
        ctx.check(False, "jdep:proj_ineq_physical_accepted", f"calc_proj_ineq_constraint of a physical generator raised: {e}")
        lind = EffectiveLindbladian(c_sys, hs.copy(), is_physicality_required=False, on_para_eq_constraint=case["flag"])
        p = lind.calc_proj_ineq_constraint()
    ctx.check(type(p) is EffectiveLindbladian, "proj_ineq_type")
    phs = np.asarray(p.hs)
    ctx.check(phs.shape == (n, n) and phs.dtype == np.float64, "proj_ineq_shape")
    h_p, j_p, k_p, _ = ref_decompose(shape, phs)
    ctx.close(k_p, k_clip, tol, "proj_ineq_k_clipped")
    ctx.leq(-rm.min_eig(k_p), 0.0, tol, "proj_ineq_k_psd")
    ctx.close(h_p, h_r, tol, "proj_ineq_h_unchanged")
    ctx.check(bool(p.is_cp(max(10 * tol, 1e-13))), "proj_ineq_is_cp")
    if physical:
        ctx.close(j_p, j_r, tol, "jdep:proj_ineq_physical_j_unchanged")
        ctx.close(phs, hs, 3 * tol * n, "jdep:proj_ineq_physical_unchanged")
    # projecting twice changes nothing more
    lind2 = EffectiveLindbladian(c_sys, phs.copy(), is_physicality_required=False, on_para_eq_constraint=case["flag"])
    p2 = lind2.calc_proj_ineq_constraint()
    h_2, j_2, k_2, _ = ref_decompose(shape, np.asarray(p2.hs))
    ctx.close(k_2, k_p, tol, "proj_ineq_k_idempotent")
    ctx.close(h_2, h_p, tol, "proj_ineq_h_idempotent")
    ctx.close(j_2, j_p, tol, "jdep:proj_ineq_j_idempotent")
    ctx.equal(np.asarray(lind.hs), hs, "proj_ineq_input_not_mutated")
    ctx.check(p.on_para_eq_constraint == case["flag"], "proj_ineq_flags")
    ctx.nontrivial(k_is_nontrivial(k_r))



# ============================================================================= facet: random_setting
@st.composite
def random_setting_case(draw, tier):
    g = draw(gen_spec(tier, k_kinds=("psd", "rankdef", "zero", "zero"), j_kinds=("from_k",), s_hi=1.0))
    g["h"]["s"] = min(g["h"]["s"], 1.0)
    return {"g": g, "shape": g["shape"], "seed": draw(st.integers(0, 2 ** 31 - 1)),
            "strength_h": draw(gen.log_uniform(1e-4, 1.0)) * draw(st.sampled_from([1.0] * 7 + [0.0])),
            "strength_k": draw(gen.log_uniform(1e-4, 1.0)) * draw(st.sampled_from([1.0] * 7 + [0.0]))}


def check_random_setting(case, ctx):
    """RandomEffectiveLindbladianGenerationSetting: base + a random GKSL generator of the documented strengths."""
    from quara.objects.effective_lindbladian import EffectiveLindbladian
    from quara.simulation.random_effective_lindbladian_generation_setting import RandomEffectiveLindbladianGenerationSetting
    from quara.settings import Settings

    g = case["g"]
    shape = g["shape"]
    d, n, basis, bs, cb = _info(shape)
    c_sys = build.c_sys_for(shape)
    r = ref_gen(g)
    sh, sk = float(case["strength_h"]), float(case["strength_k"])
    tol = tol_for(shape, r["scale"] + sh + sk * n)
    ctx.label(shape, "k:" + g["k"]["kind"], "sh0:%s" % (sh == 0), "sk0:%s" % (sk == 0))
    base = EffectiveLindbladian(c_sys, r["hs"].copy(), is_physicality_required=False)
    ident = build.make(c_sys, "gate", np.eye(n).reshape(-1), is_physicality_required=True)
    setting = RandomEffectiveLindbladianGenerationSetting(c_sys, ident, base, sh, sk)
    ctx.raises(ValueError, lambda: RandomEffectiveLindbladianGenerationSetting(c_sys, ident, base, -1.0, sk), "negative_strength_rejected")
    out = setting.generate_random_effective_lindbladian(int(case["seed"]))
    ctx.check(isinstance(out, tuple) and len(out) == 5, "random_tuple")
    lind, rv_h, rv_k, u, rnd = out
    ctx.check(type(lind) is EffectiveLindbladian, "random_type")
    rnd = np.asarray(rnd)
    ctx.close(np.asarray(lind.hs) - r["hs"], rnd, tol, "random_is_base_plus_random")
    h2, j2, k2, _ = ref_decompose(shape, rnd)
    rv_h, rv_k = np.asarray(rv_h, dtype=float), np.asarray(rv_k, dtype=float)
    ctx.check(rv_h.shape == (n - 1,) and rv_k.shape == (n - 1,), "random_variable_shapes")
    # h part: H = sum_a strength_h * x_a/|x| B_a
    hvec = sh * rv_h / np.linalg.norm(rv_h)
    h_exp = rm.unvec(basis[1:], hvec)
    ctx.close(h2, h_exp, tol, "random_h_strength")
    # k part: PSD with spectrum |strength_k x/|x||, J = J(K): a GKSL generator
    lam_exp = np.sort(np.abs(sk * rv_k / np.linalg.norm(rv_k)))
    ctx.close(np.sort(np.linalg.eigvalsh(rm.herm(k2))), lam_exp, tol, "random_k_spectrum")
    ctx.close(k2, rm.herm(k2), tol, "random_k_hermitian")
    ctx.close(j2, j_from_k(bs[1:], rm.herm(k2)), tol, "random_j_is_gksl")
    ctx.close(rnd[0], np.zeros(n), tol, "random_trace_preserving")
    # the perturbed generator is physical and exponentiates to a CPTP gate
    ctx.check(bool(lind.is_physical(1e-9, 1e-9)), "random_sum_physical")
    gate, *_ = setting.generate_gate(int(case["seed"]))
    ghs = np.asarray(gate.hs)
    ctx.close(ghs, expm_ref(np.asarray(lind.hs)), tol_for(shape, r["scale"] + float(np.linalg.norm(lind.hs, 1))), "random_gate_is_expm")
    ctx.leq(-rm.min_eig(rm.choi_from_hs(basis, ghs)), 0.0, tol * d, "random_gate_cp")
    # same seed, same generator
    out2 = setting.generate_random_effective_lindbladian(int(case["seed"]))
    ctx.equal(np.asarray(out2[0].hs), np.asarray(lind.hs), "random_reproducible")
    ctx.nontrivial(sh > 0 and sk > 0)


# ============================================================================= facet: var / index maps
@st.composite
def var_case(draw, tier):
    g = draw(gen_spec(tier, row0=False, j_kinds=("from_k", "generic")))
    return {"g": g, "shape": g["shape"], "flag": draw(st.booleans()), "bump": draw(st.floats(-2.0, 2.0, allow_nan=False))}


def check_var(case, ctx):
    from quara.objects import effective_lindbladian as el

    g = case["g"]
    shape = g["shape"]
    flag = bool(case["flag"])
    d, n, basis, bs, cb = _info(shape)
    c_sys = build.c_sys_for(shape)
    r = ref_gen(g)
    hs = r["hs"]
    if flag:
        hs = hs.copy()
        hs[0, :] = 0.0  # the constrained parametrisation describes trace-preserving generators (first row zero)
    ctx.label(shape, "flag:%s" % flag, "j:" + g["j"]["kind"])
    lind = el.EffectiveLindbladian(c_sys, hs.copy(), is_physicality_required=False, on_para_eq_constraint=flag)
    var = lind.to_var()
    exp_var = hs[1:].reshape(-1) if flag else hs.reshape(-1)
    ctx.equal(np.asarray(var), exp_var, "to_var")
    ctx.equal(np.asarray(el.convert_effective_lindbladian_to_var(c_sys, hs, on_para_eq_constraint=flag)), exp_var, "convert_to_var")
    ctx.equal(np.asarray(lind.to_stacked_vector()), hs.reshape(-1), "to_stacked_vector")

    back = el.convert_var_to_effective_lindbladian(c_sys, np.asarray(var).copy(), is_physicality_required=False, on_para_eq_constraint=flag)
    ctx.check(isinstance(back, el.EffectiveLindbladian) and back.on_para_eq_constraint == flag, "convert_var_type")
    ctx.close(back.hs, hs, 0.0, "var_roundtrip", "convert_var_to_effective_lindbladian(to_var(L)) != L")
    try:
        back2 = lind.generate_from_var(np.asarray(var).copy())
    except TypeError as e:
        back2 = None
        ctx.check(False, "generate_from_var_callable", f"generate_from_var raised TypeError: {e}")
    if back2 is not None:
        ctx.check(type(back2) is el.EffectiveLindbladian, "generate_from_var_type")
        ctx.close(back2.hs, hs, 0.0, "var_roundtrip", "generate_from_var(to_var(L)) != L")

    # index maps: bijection, consistent with to_var, gradient = unit matrix, affine parametrisation
    nv = exp_var.size
    seen = set()
    idx_ok, inv_ok, val_ok = True, True, True
    for i in range(nv):
        rc = el.convert_var_index_to_effective_lindbladian_index(c_sys, i, on_para_eq_constraint=flag)
        rc = (int(rc[0]), int(rc[1]))
        idx_ok &= 0 <= rc[0] < n and 0 <= rc[1] < n and rc not in seen and (not flag or rc[0] >= 1)
        seen.add(rc)
        if idx_ok:
            val_ok &= bool(exp_var[i] == hs[rc])
        inv_ok &= el.convert_effective_lindbladian_index_to_var_index(c_sys, rc, on_para_eq_constraint=flag) == i
    ctx.check(idx_ok, "var_index_injective_in_range")
    ctx.check(val_ok, "var_index_matches_to_var")
    ctx.check(inv_ok, "var_index_inverse")
    i = int(abs(hash_int(case)) % nv)
    grad = lind.calc_gradient(i)
    rc = el.convert_var_index_to_effective_lindbladian_index(c_sys, i, on_para_eq_constraint=flag)
    unit = np.zeros((n, n))
    if idx_ok:
        unit[int(rc[0]), int(rc[1])] = 1.0
    ctx.check(type(grad) is el.EffectiveLindbladian, "gradient_type")
    ctx.equal(np.asarray(grad.hs), unit, "gradient_unit")
    v2 = np.asarray(var, dtype=float).copy()
    v2[i] += float(case["bump"])
    bumped = el.convert_var_to_effective_lindbladian(c_sys, v2, is_physicality_required=False, on_para_eq_constraint=flag)
    ctx.close(np.asarray(bumped.hs) - np.asarray(back.hs), float(case["bump"]) * unit, 1e-12 * (1 + r["scale"]), "var_affine_gradient")
    ctx.nontrivial(d >= 3 or flag)


def hash_int(case):
    """deterministic index choice from case data (no RNG)."""
    raw = case["g"]["h"]["raw"]
    return int(sum(int(abs(x) * 1e6) for x in raw[:8])) + int(abs(case["bump"]) * 1000)


# ============================================================================= facets
FACETS = {
    "gksl_action": {
        "strategy": action_case,
        "check": check_action,
        "budget": {"quick": {"examples": 560, "shards": 8}, "thorough": {"examples": 9000, "shards": 16}},
        "nontrivial": "K has a non-zero trace and complex off-diagonal entries (jump operators: complex, non-projector)",
        "min_nontrivial": 40,
    },
    "decompose_recompose": {
        "strategy": decompose_case,
        "check": check_decompose,
        "budget": {"quick": {"examples": 320, "shards": 16}, "thorough": {"examples": 6000, "shards": 16}},
        "nontrivial": "K has a non-zero trace and complex off-diagonal entries",
        "min_nontrivial": 40,
    },
    "verdicts": {
        "strategy": verdict_case,
        "check": check_verdicts,
        "budget": {"quick": {"examples": 480, "shards": 8}, "thorough": {"examples": 8000, "shards": 16}},
        "nontrivial": "first-row or lambda_min(K) defect within two decades of atol, or rank-deficient K",
        "min_nontrivial": 40,
    },
    "exponential": {
        "strategy": exponential_case,
        "check": check_exponential,
        "budget": {"quick": {"examples": 240, "shards": 8}, "thorough": {"examples": 4000, "shards": 16}},
        "nontrivial": "K has a non-zero trace and complex off-diagonal entries",
        "min_nontrivial": 15,
    },
    "projections": {
        "strategy": projection_case,
        "check": check_projections,
        "budget": {"quick": {"examples": 400, "shards": 8}, "thorough": {"examples": 6000, "shards": 16}},
        "nontrivial": "K has a non-zero trace and complex off-diagonal entries",
        "min_nontrivial": 40,
    },
    "random_setting": {
        "strategy": random_setting_case,
        "check": check_random_setting,
        "budget": {"quick": {"examples": 160, "shards": 4}, "thorough": {"examples": 2000, "shards": 8}},
        "nontrivial": "both strengths positive",
        "min_nontrivial": 20,
    },
    "var_index": {
        "strategy": var_case,
        "check": check_var,
        "budget": {"quick": {"examples": 240, "shards": 4}, "thorough": {"examples": 3000, "shards": 8}},
        "nontrivial": "d >= 3, or the parametrisation with the equality constraint",
        "min_nontrivial": 20,
    },
}
