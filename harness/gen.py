"""Hypothesis strategies producing JSON-able cases (DESIGN.md 3.3) and their matrix-level meaning.

Every random choice is a Hypothesis draw.  A case is plain data; `matrices(case)` turns it into the
operators it denotes using refmodel only (no quara).
"""
import math

import numpy as np
from hypothesis import strategies as st
from hypothesis.extra import numpy as hnp

from harness import refmodel as rm

SHAPES = {"1q": [2], "qutrit": [3], "2q": [2, 2], "2x3": [2, 3], "3x2": [3, 2], "2qutrit": [3, 3]}


def dim_of(shape):
    return int(np.prod(SHAPES[shape]))


def raw(n, lo=-1.0, hi=1.0):
    # fill=st.nothing(): every entry is drawn independently (the default fill makes most entries of a long array equal,
    # which skews constructions towards degenerate operators); very long arrays keep the default to stay inside
    # Hypothesis' entropy budget.
    kw = {"fill": st.nothing()} if n <= 512 else {}
    return hnp.arrays(
        np.float64,
        n,
        elements=st.floats(lo, hi, allow_nan=False, allow_infinity=False, width=64),
        **kw,
    ).map(lambda a: [float(x) for x in a])


def shapes(*names):
    return st.sampled_from(list(names))


def log_uniform(lo, hi):
    """float in [lo, hi], log-uniform."""
    return st.floats(math.log10(lo), math.log10(hi), allow_nan=False).map(lambda e: float(10.0 ** e))


def ref_basis(shape, kind="normal"):
    """refmodel basis of the shape's composite system (ascending subsystem order)."""
    locs = []
    for d in SHAPES[shape]:
        if d == 2:
            locs.append(rm.pauli_1q(True))
        elif d == 3:
            locs.append(rm.gell_mann(True))
        else:
            raise ValueError(d)
    return rm.kron_bases(locs)


# ----------------------------------------------------------------------------- states
@st.composite
def state_case(draw, shape_names=("1q", "qutrit", "2q"), special=True):
    shape = draw(shapes(*shape_names))
    d = dim_of(shape)
    kind = draw(st.sampled_from(["generic", "generic", "generic", "pure", "rankdef", "mixed", "diag", "nearboundary"] if special else ["generic"]))
    case = {"type": "state", "shape": shape, "kind": kind}
    if kind == "nearboundary":
        # physical, with one eigenvalue that is tiny but not zero (1e-12..1e-6): just inside the boundary
        case["tiny"] = draw(log_uniform(1e-12, 1e-6))
    if kind == "mixed":
        return case
    case["raw_u"] = draw(raw(2 * d * d))
    case["raw_p"] = draw(raw(d))
    if kind == "pure":
        case["zero_mask"] = [False] + [True] * (d - 1)
    elif kind == "rankdef":
        zm = draw(st.lists(st.booleans(), min_size=d, max_size=d))
        if not any(zm):
            zm[-1] = True
        case["zero_mask"] = zm
    return case


def state_matrix(case):
    d = dim_of(case["shape"])
    k = case.get("kind", "generic")
    if k == "mixed":
        return np.eye(d, dtype=complex) / d
    if k == "diag":
        p = rm.simplex_from_raw(case["raw_p"][:d], case.get("zero_mask"))
        return np.diag(p).astype(complex)
    if k == "nearboundary":
        u = rm.unitary_from_raw(case["raw_u"], d)
        p = rm.simplex_from_raw(case["raw_p"][:d], None)
        j = int(np.argmin(p))
        p = p.copy()
        p[j] = 0.0
        p = p / p.sum() * (1.0 - case["tiny"])
        p[j] = case["tiny"]
        return rm.herm((u * p) @ u.conj().T)
    return rm.density_from_raw(case["raw_u"], case["raw_p"], d, case.get("zero_mask"))


# ----------------------------------------------------------------------------- povms
@st.composite
def povm_case(draw, shape_names=("1q", "qutrit", "2q"), m_range=(2, 5)):
    shape = draw(shapes(*shape_names))
    d = dim_of(shape)
    m = draw(st.integers(*m_range))
    kind = draw(st.sampled_from(["naimark", "naimark", "naimark", "rank1", "projective", "trivial"]))
    if kind == "rank1" and m < d:
        kind = "naimark"
    if kind == "projective" and m > d:
        kind = "naimark"
    case = {"type": "povm", "shape": shape, "m": m, "kind": kind}
    if kind == "naimark":
        case["raw"] = draw(raw(2 * d * m * d))
    elif kind == "rank1":
        case["raw"] = draw(raw(2 * m * d))
    elif kind == "projective":
        case["raw"] = draw(raw(2 * d * d))
    return case


def povm_matrices(case):
    d = dim_of(case["shape"])
    m = case["m"]
    if case["kind"] == "trivial":
        return [np.eye(d, dtype=complex) / m for _ in range(m)]
    return rm.povm_from_raw(case["raw"], d, m, case["kind"])


# ----------------------------------------------------------------------------- gates
@st.composite
def gate_case(draw, shape_names=("1q", "qutrit", "2q"), max_rank=None):
    shape = draw(shapes(*shape_names))
    d = dim_of(shape)
    mr = d * d if max_rank is None else min(max_rank, d * d)
    kind = draw(st.sampled_from(["generic", "generic", "unitary", "identity", "depol", "weak"]))
    case = {"type": "gate", "shape": shape, "kind": kind}
    if kind == "weak":
        # a channel close to, but not equal to, the identity: weak depolarising noise or a tiny rotation about a drawn axis
        case["sub"] = draw(st.sampled_from(["depol", "rot"]))
        case["strength"] = draw(log_uniform(1e-10, 1e-3))
        case["raw"] = draw(raw(2 * d * d))
        return case
    if kind == "generic":
        r = draw(st.integers(1, mr))
        case["r"] = r
        case["raw"] = draw(raw(2 * d * r * d))
    elif kind == "unitary":
        case["r"] = 1
        case["raw"] = draw(raw(2 * d * d))
    elif kind == "depol":
        case["p"] = draw(st.floats(0, 1, allow_nan=False))
    return case


def gate_kraus(case):
    d = dim_of(case["shape"])
    k = case["kind"]
    if k == "identity":
        return [np.eye(d, dtype=complex)]
    if k == "weak" and case["sub"] == "rot":
        h = rm.herm(rm.ginibre(case["raw"], d, d)) if hasattr(rm, "ginibre") else None
        if h is None:
            a = np.asarray(case["raw"][: d * d]).reshape(d, d) + 1j * np.asarray(case["raw"][d * d: 2 * d * d]).reshape(d, d)
            h = (a + a.conj().T) / 2
        nrm = float(np.linalg.norm(h))
        h = h / nrm if nrm > 1e-9 else np.diag(np.arange(d, dtype=float) - (d - 1) / 2)
        w, v = np.linalg.eigh(h)
        return [(v * np.exp(-1j * case["strength"] * w)) @ v.conj().T]
    if k == "depol" or k == "weak":
        p = case["p"] if k == "depol" else case["strength"]
        # (1-p) id + p * completely depolarising, Kraus via Weyl-free construction
        ks = [math.sqrt(1 - p) * np.eye(d, dtype=complex)]
        for i in range(d):
            for j in range(d):
                e = np.zeros((d, d), dtype=complex)
                e[i, j] = 1
                ks.append(math.sqrt(p / d) * e)
        return ks
    return rm.kraus_from_raw(case["raw"], d, case["r"])


# ----------------------------------------------------------------------------- mprocess
@st.composite
def mprocess_case(draw, shape_names=("1q", "qutrit", "2q"), m_range=(2, 4), max_per=2):
    shape = draw(shapes(*shape_names))
    d = dim_of(shape)
    m = draw(st.integers(*m_range))
    counts = draw(st.lists(st.integers(1, max_per), min_size=m, max_size=m))
    r = sum(counts)
    case = {
        "type": "mprocess",
        "shape": shape,
        "m": m,
        "counts": counts,
        "raw": draw(raw(2 * d * r * d)),
    }
    # explicit outcome layout of the MProcess object (None = the constructor's default flat layout): padded with 1-axes or
    # a two-axis factorisation of m; used by the checks that pass mshape= to build.make
    layouts = [None, None, (m,), (1, m), (m, 1)] + [(a, m // a) for a in range(2, m) if m % a == 0]
    lay = draw(st.sampled_from(layouts))
    if lay is not None:
        case["mshape"] = list(lay)
    return case


def mprocess_kraus(case):
    d = dim_of(case["shape"])
    return rm.instrument_from_raw(case["raw"], d, case["counts"])


# ----------------------------------------------------------------------------- generic
def matrices(case):
    t = case["type"]
    if t == "state":
        return state_matrix(case)
    if t == "povm":
        return povm_matrices(case)
    if t == "gate":
        return gate_kraus(case)
    if t == "mprocess":
        return mprocess_kraus(case)
    raise ValueError(t)


def stacked_reference(case, basis):
    """real stacked parameter vector of the physical object in the given orthonormal Hermitian basis."""
    t = case["type"]
    if t == "state":
        return np.real(rm.vec(basis, state_matrix(case)))
    if t == "povm":
        return np.concatenate([np.real(rm.vec(basis, e)) for e in povm_matrices(case)])
    if t == "gate":
        return np.real(rm.hs_from_kraus(basis, gate_kraus(case))).reshape(-1)
    if t == "mprocess":
        return np.concatenate([np.real(rm.hs_from_kraus(basis, ks)).reshape(-1) for ks in mprocess_kraus(case)])
    raise ValueError(t)


def any_object_case(shape_names=("1q", "qutrit", "2q"), m_range=(2, 4)):
    return st.one_of(
        state_case(shape_names),
        povm_case(shape_names, m_range),
        gate_case(shape_names),
        mprocess_case(shape_names, m_range),
    )
