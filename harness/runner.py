"""Runner: tiers, seeds, sharding, evidence, findings protocol (DESIGN.md section 3/4).

    python -m harness.runner <Cxx> [--tier quick|thorough] [--replay path] [--facet name]

exit 0 held / 1 violation (VIOLATION line) / 2 harness error.
"""
import argparse
import hashlib
import importlib
import io
import json
import multiprocessing as mp
import os
import sys
import time
import traceback

HOME = os.environ.get("VERIF_HOME", os.path.dirname(os.path.dirname(os.path.abspath(__file__))))
REPO = os.path.realpath(os.environ.get("VERIF_REPO", "/repo"))


# ----------------------------------------------------------------------------- failures
class CheckFailure(Exception):
    """An oracle was violated inside check_case."""

    def __init__(self, oracle, detail="", measured=None):
        super().__init__(f"{oracle}: {detail}")
        self.oracle = oracle
        self.detail = detail
        self.measured = measured or {}


class HarnessError(Exception):
    """The harness itself is wrong (never reported as a violation)."""


def _jsonable(x):
    import numpy as np

    if isinstance(x, dict):
        return {str(k): _jsonable(v) for k, v in x.items()}
    if isinstance(x, (list, tuple)):
        return [_jsonable(v) for v in x]
    if isinstance(x, np.ndarray):
        if np.iscomplexobj(x):
            return {"re": x.real.tolist(), "im": x.imag.tolist()}
        return x.tolist()
    if isinstance(x, (np.integer,)):
        return int(x)
    if isinstance(x, (np.floating,)):
        return float(x)
    if isinstance(x, (np.bool_,)):
        return bool(x)
    if isinstance(x, complex):
        return {"re": x.real, "im": x.imag}
    if isinstance(x, (str, int, float, bool)) or x is None:
        return x
    return repr(x)


def case_hash(case):
    return hashlib.sha256(json.dumps(_jsonable(case), sort_keys=True).encode()).hexdigest()[:16]


def derive_seed(*parts):
    h = hashlib.sha256("|".join(str(p) for p in parts).encode()).hexdigest()
    return int(h[:12], 16)


# ----------------------------------------------------------------------------- known findings
def load_known(prop):
    import glob

    out = []
    paths = [os.path.join(HOME, "known_findings.json")] + sorted(glob.glob(os.path.join(HOME, "known_findings.d", "*.json")))
    for path in paths:
        if not os.path.exists(path):
            continue
        with open(path) as f:
            data = json.load(f)
        out.extend(e for e in data.get("findings", []) if e.get("property") == prop)
    return out


# ----------------------------------------------------------------------------- ctx
class Ctx:
    """Handed to check_case: oracles, labels, residual bookkeeping."""

    def __init__(self, facet, case, known, module):
        self.facet = facet
        self.case = case
        self.known = [k for k in known if k.get("status") == "known" and k.get("facet") in (facet, "*")]
        self.module = module
        self.classes = []
        self.is_nontrivial = False
        self.residuals = {}  # oracle -> max(residual/tol)
        self.known_hits = []
        self.n_oracles = 0
        self.inconclusive = 0

    # -- classification
    def label(self, *classes):
        for c in classes:
            if c is not None:
                self.classes.append(str(c))

    def nontrivial(self, flag=True):
        if flag:
            self.is_nontrivial = True

    # -- failure routing
    def _matches_known(self, oracle):
        for k in self.known:
            pats = k.get("oracle", "")
            pats = pats if isinstance(pats, list) else [pats]
            if not any(pt in (oracle, "*") or (pt.endswith("*") and oracle.startswith(pt[:-1])) for pt in pats):
                continue
            pred = k.get("predicate")
            if pred:
                fn = getattr(self.module, pred, None)
                if fn is None:
                    raise HarnessError(f"known finding {k.get('id')} names missing predicate {pred}")
                try:
                    if not fn(self.case):
                        continue
                except Exception as e:  # predicate bug is a harness bug
                    raise HarnessError(f"predicate {pred} raised {e!r}")
            return k
        return None

    def fail(self, oracle, detail="", **measured):
        k = self._matches_known(oracle)
        if k is not None:
            self.known_hits.append(k["id"])
            return False
        raise CheckFailure(oracle, detail, measured)

    def check(self, cond, oracle, detail="", **measured):
        self.n_oracles += 1
        if bool(cond):
            return True
        if callable(detail):
            detail = detail()
        return self.fail(oracle, detail, **measured)

    def close(self, a, b, tol, oracle, detail=""):
        """max|a-b| <= tol (absolute); shapes must agree; records residual/tol."""
        import numpy as np

        self.n_oracles += 1
        try:
            a_ = np.asarray(a)
            b_ = np.asarray(b)
            if a_.dtype == object or b_.dtype == object:
                raise ValueError("object array")
        except Exception:
            return self.fail(oracle, f"not array-like: {type(a)} vs {type(b)} {detail}")
        if a_.shape != b_.shape:
            return self.fail(oracle, f"shape {a_.shape} != {b_.shape} {detail}")
        if a_.size == 0:
            return True
        diff = np.abs(a_ - b_)
        if not np.all(np.isfinite(diff)):
            return self.fail(oracle, f"non-finite difference {detail}")
        r = float(np.max(diff))
        ratio = r / tol if tol > 0 else (0.0 if r == 0 else float("inf"))
        if ratio > self.residuals.get(oracle, 0.0):
            self.residuals[oracle] = ratio
        if r <= tol:
            return True
        return self.fail(oracle, f"max|diff|={r:.3e} > tol={tol:.3e} {detail}", residual=r, tol=tol)

    def leq(self, x, bound, tol, oracle, detail=""):
        """x <= bound + tol."""
        self.n_oracles += 1
        x = float(x)
        bound = float(bound)
        if x != x:
            return self.fail(oracle, f"nan {detail}")
        ratio = (x - bound) / tol if tol > 0 else 0.0
        if ratio > self.residuals.get(oracle, 0.0):
            self.residuals[oracle] = ratio
        if x <= bound + tol:
            return True
        return self.fail(oracle, f"{x:.6e} > {bound:.6e} + {tol:.1e} {detail}", value=x, bound=bound, tol=tol)

    def equal(self, a, b, oracle, detail=""):
        """exact equality (ints, bools, strings, tuples, arrays bitwise)."""
        import numpy as np

        self.n_oracles += 1
        try:
            if isinstance(a, np.ndarray) or isinstance(b, np.ndarray):
                ok = (
                    isinstance(a, np.ndarray)
                    and isinstance(b, np.ndarray)
                    and a.shape == b.shape
                    and a.dtype == b.dtype
                    and bool(np.array_equal(a, b, equal_nan=True))
                )
            else:
                ok = bool(a == b)
        except Exception:
            ok = False
        if ok:
            return True
        return self.fail(oracle, f"{_short(a)} != {_short(b)} {detail}")

    def raises(self, exc_types, fn, oracle, detail=""):
        """fn() must raise one of exc_types (documented rejection)."""
        self.n_oracles += 1
        try:
            fn()
        except exc_types:
            return True
        except Exception as e:
            return self.fail(oracle, f"raised {type(e).__name__}: {e} instead of {exc_types} {detail}")
        return self.fail(oracle, f"did not raise {exc_types} {detail}")

    def skip(self, reason):
        self.inconclusive += 1
        self.label("inconclusive:" + reason)


def _short(x, n=200):
    s = repr(x)
    return s if len(s) <= n else s[:n] + "..."


# ----------------------------------------------------------------------------- global reset
def reset_globals():
    """State quara owns globally, reset at the top of every case."""
    import numpy as np

    try:
        from quara.settings import Settings

        Settings.set_atol(1e-13)
    except Exception:
        pass
    np.random.seed(12345)


def ambient_state():
    """(global atol, numpy error state, working directory): none of them is documented to be changed by any library call
    other than Settings.set_atol itself."""
    import numpy as np

    try:
        from quara.settings import Settings

        atol = Settings.get_atol()
    except Exception:
        atol = None
    return {"atol": atol, "np_err": dict(np.geterr()), "cwd": os.getcwd()}


def restore_ambient(a):
    import numpy as np

    try:
        from quara.settings import Settings

        if a["atol"] is not None:
            Settings.set_atol(float(a["atol"]))
    except Exception:
        pass
    np.seterr(**a["np_err"])
    os.chdir(a["cwd"])


def quara_frame(tb):
    """innermost frame inside the repo under test, or None."""
    found = None
    for fs in traceback.extract_tb(tb):
        fn = os.path.realpath(fs.filename)
        if fn.startswith(REPO + os.sep) and (os.sep + "quara" + os.sep) in fn:
            found = f"{os.path.relpath(fn, REPO)}:{fs.name}"
    return found


# ----------------------------------------------------------------------------- shard worker
def _run_shard(args):
    (prop, facet_name, shard, n_shards, tier, verif_seed, n_examples, replay_case) = args
    t0 = time.time()
    out = {
        "facet": facet_name,
        "shard": shard,
        "evaluations": 0,
        "nontrivial_hashes": [],
        "classes": {},
        "residuals": {},
        "samples": [],
        "known_hits": {},
        "failure": None,
        "harness_error": None,
        "inconclusive": 0,
        "oracle_evals": 0,
        "discards": 0,
    }
    try:
        module = importlib.import_module(f"harness.checks.{prop.lower()}")
        facet = module.FACETS[facet_name]
        known = load_known(prop)
        nontriv = set()
        state = {"last_failure": None}

        slow_limit = float(os.environ.get("VERIF_SLOW", "0") or 0)

        def run_case(case, record=True):
            reset_globals()
            ctx = Ctx(facet_name, case, known, module)
            cap = io.StringIO()
            ctx.captured_stdout = cap  # facets may inspect what the library printed (e.g. iteration-cap warnings)
            old = sys.stdout
            sys.stdout = cap
            t_case = time.time()
            try:
                amb0 = ambient_state()
                facet["check"](case, ctx)
                # process-global state the library never documents changing (every check module restores what it sets):
                # a library call that changed it - e.g. on an error path - would silently alter every later verdict
                amb1 = ambient_state()
                if amb1 != amb0:
                    restore_ambient(amb0)
                    ctx.check(False, "ambient:process_global_state_restored",
                              f"before the case {amb0}, after it {amb1}")
            except CheckFailure as e:
                state["last_failure"] = {
                    "case": _jsonable(case),
                    "oracle": e.oracle,
                    "detail": str(e.detail)[:2000],
                    "measured": _jsonable(e.measured),
                }
                raise
            except HarnessError:
                raise
            except Exception as e:
                qf = quara_frame(e.__traceback__)
                if qf is None:
                    raise HarnessError(
                        f"exception without a quara frame in {facet_name}: {type(e).__name__}: {e}\n"
                        + traceback.format_exc()
                    )
                oracle = f"exception:{type(e).__name__}@{qf}"
                # a known finding may cover this exception
                k = ctx._matches_known(oracle)
                if k is not None:
                    ctx.known_hits.append(k["id"])
                else:
                    state["last_failure"] = {
                        "case": _jsonable(case),
                        "oracle": oracle,
                        "detail": (f"{type(e).__name__}: {e}\n" + traceback.format_exc())[-3000:],
                        "measured": {},
                    }
                    raise CheckFailure(oracle, str(e))
            finally:
                sys.stdout = old
                dt = time.time() - t_case
                if dt > out.get("slowest_case_s", 0.0):
                    out["slowest_case_s"] = dt
                if slow_limit and dt > slow_limit:
                    sys.stderr.write(f"SLOW {facet_name} shard={shard} {dt:.1f}s classes={ctx.classes[:12]} hash={case_hash(case)}\n")
                    try:
                        os.makedirs("/tmp/verif_slow", exist_ok=True)
                        with open(f"/tmp/verif_slow/{prop}-{facet_name}-{case_hash(case)}.json", "w") as fh:
                            json.dump({"property": prop, "facet": facet_name, "oracle": "slow", "detail": f"{dt:.1f}s", "case": _jsonable(case)}, fh)
                    except Exception:
                        pass
            if record:
                out["evaluations"] += 1
                out["oracle_evals"] += ctx.n_oracles
                out["inconclusive"] += ctx.inconclusive
                for c in ctx.classes:
                    out["classes"][c] = out["classes"].get(c, 0) + 1
                for o, r in ctx.residuals.items():
                    if r > out["residuals"].get(o, 0.0):
                        out["residuals"][o] = r
                for kid in ctx.known_hits:
                    out["known_hits"][kid] = out["known_hits"].get(kid, 0) + 1
                if ctx.is_nontrivial:
                    h = case_hash(case)
                    if h not in nontriv:
                        nontriv.add(h)
                        if len(out["samples"]) < 2:
                            out["samples"].append(_truncate_sample(_jsonable(case)))
                elif len(out["samples"]) == 0 and out["evaluations"] == 1:
                    pass
            return ctx

        if replay_case is not None:
            try:
                run_case(replay_case)
            except CheckFailure:
                out["failure"] = state["last_failure"]
            out["nontrivial_hashes"] = sorted(nontriv)
            out["wall_s"] = time.time() - t0
            return out

        kind = facet.get("kind", "generated")
        seed_n = derive_seed(prop, facet_name, shard, verif_seed)
        if kind == "generated":
            import hypothesis
            from hypothesis import HealthCheck, Phase, given, settings

            strat = facet["strategy"](tier)
            # facets with an own minimiser (program cases) skip Hypothesis' shrinker (hard 5-minute cap, slow on programs)
            phases = [Phase.generate] if facet.get("minimize") else [Phase.generate, Phase.shrink]
            sett = settings(
                max_examples=max(1, n_examples),
                database=None,
                deadline=None,
                derandomize=False,
                report_multiple_bugs=False,
                suppress_health_check=list(HealthCheck),
                phases=phases,
                print_blob=False,
            )

            @hypothesis.seed(seed_n)
            @sett
            @given(strat)
            def test(case):
                run_case(case)

            try:
                test()
            except CheckFailure:
                out["failure"] = state["last_failure"]
                if facet.get("minimize") and out["failure"] is not None:
                    target_oracle = out["failure"]["oracle"]

                    def fails(c):
                        state["last_failure"] = None
                        try:
                            run_case(c, record=False)
                        except CheckFailure as e2:
                            return e2.oracle == target_oracle
                        except HarnessError:
                            return False
                        return False

                    best = facet["minimize"](out["failure"]["case"], fails)
                    if fails(best) and state["last_failure"] is not None:
                        out["failure"] = state["last_failure"]
            except hypothesis.errors.Unsatisfiable as e:
                raise HarnessError(f"strategy unsatisfiable for {facet_name}: {e}")
            except BaseException as e:
                # hypothesis wraps some errors (Flaky, FailedHealthCheck)
                if isinstance(e, HarnessError):
                    raise
                if state["last_failure"] is not None and isinstance(
                    e, (hypothesis.errors.Flaky, hypothesis.errors.FlakyFailure)
                ):
                    out["failure"] = state["last_failure"]
                    out["failure"]["detail"] += "\n[flaky under hypothesis replay]"
                else:
                    raise
        elif kind == "enumeration":
            # facet["items"](tier) -> list of JSON-able items; shards take a stride
            items = facet["items"](tier)
            gk = facet.get("group_key")
            if gk is None:
                mine = range(shard, len(items), n_shards)
            else:
                # items with the same group key (e.g. one catalogue name with all its id permutations) are enumerated
                # one after the other in the same process, so that anything the library keeps between them is seen
                order = {}
                for it in items:
                    order.setdefault(repr(gk(it)), len(order))
                mine = [i for i, it in enumerate(items) if order[repr(gk(it))] % n_shards == shard]
            for i in mine:
                try:
                    run_case(items[i])
                except CheckFailure:
                    out["failure"] = state["last_failure"]
                    break
            out["enumerated_total"] = len(items)
            ex = facet.get("exhaustive", True)  # a facet whose item list is a sample says so (bool or tier -> bool)
            out["enumeration_exhaustive"] = bool(ex(tier)) if callable(ex) else bool(ex)
        else:
            raise HarnessError(f"unknown facet kind {kind}")
        out["nontrivial_hashes"] = sorted(nontriv)
    except HarnessError as e:
        out["harness_error"] = str(e)
    except BaseException as e:  # noqa
        out["harness_error"] = f"{type(e).__name__}: {e}\n" + traceback.format_exc()
    out["wall_s"] = time.time() - t0
    return out


def _truncate_sample(case, limit=1500):
    s = json.dumps(case, sort_keys=True)
    if len(s) <= limit:
        return case
    return {"truncated_json": s[:limit] + "...", "sha": hashlib.sha256(s.encode()).hexdigest()[:16]}


# ----------------------------------------------------------------------------- main
def write_replay(prop, facet, failure):
    d = os.path.join(HOME, "replay", prop)
    os.makedirs(d, exist_ok=True)
    h = case_hash([facet, failure["case"]])
    rel = os.path.join("replay", prop, f"{facet}-{h}.json")
    with open(os.path.join(HOME, rel), "w") as f:
        json.dump(
            {
                "property": prop,
                "facet": facet,
                "oracle": failure["oracle"],
                "detail": failure["detail"],
                "measured": failure.get("measured", {}),
                "case": failure["case"],
            },
            f,
            indent=1,
            sort_keys=True,
        )
    return rel


def main(argv=None):
    ap = argparse.ArgumentParser()
    ap.add_argument("prop")
    ap.add_argument("--tier", default=os.environ.get("VERIF_TIER", "quick"))
    ap.add_argument("--replay", default=None)
    ap.add_argument("--facet", default=None, help="comma-separated facet names (debug)")
    ap.add_argument("--no-evidence", action="store_true")
    ap.add_argument("--scale", type=float, default=float(os.environ.get("VERIF_SCALE", "1")))
    a = ap.parse_args(argv)
    prop = a.prop.upper()
    tier = a.tier if a.tier in ("quick", "thorough") else "quick"
    try:
        verif_seed = int(os.environ.get("VERIF_SEED", "1"))
    except ValueError:
        verif_seed = 1
    t0 = time.time()

    try:
        module = importlib.import_module(f"harness.checks.{prop.lower()}")
    except Exception:
        # distinguish: quara failing to import is a violation of nothing in particular -> harness error
        print("HARNESS-ERROR: cannot import check module\n" + traceback.format_exc())
        return 2
    known = load_known(prop)

    # ---- replay mode
    if a.replay:
        path = a.replay if os.path.isabs(a.replay) else os.path.join(HOME, a.replay)
        with open(path) as f:
            rep = json.load(f)
        res = _run_shard((prop, rep["facet"], 0, 1, tier, verif_seed, 1, rep["case"]))
        if res["harness_error"]:
            print("HARNESS-ERROR:", res["harness_error"])
            return 2
        if res["failure"]:
            print(f"replay fails: oracle={res['failure']['oracle']} {res['failure']['detail'][:500]}")
            print(f"VIOLATION property={prop} replay={os.path.relpath(path, HOME)}")
            return 1
        if res["known_hits"]:
            for kid in res["known_hits"]:
                print(f"replay hits known finding {kid}")
        print("replay passes")
        return 0

    facets = module.FACETS
    names = list(facets)
    if a.facet:
        names = [n for n in names if n in a.facet.split(",")]
    tasks = []
    for n in names:
        fc = facets[n]
        budget = fc["budget"][tier]
        if isinstance(budget, dict):
            n_ex, n_sh = budget["examples"], budget.get("shards", 1)
        else:
            n_ex, n_sh = budget, 1
        n_ex = max(1, int(n_ex * a.scale))
        if fc.get("kind", "generated") == "enumeration":
            for s in range(n_sh):
                tasks.append((prop, n, s, n_sh, tier, verif_seed, 0, None))
        else:
            per = max(1, n_ex // n_sh)
            for s in range(n_sh):
                tasks.append((prop, n, s, n_sh, tier, verif_seed, per, None))

    # ---- regression corpus: saved failing inputs of earlier defects / seeded changes (corpus/<Cxx>/*.json), replayed
    # deterministically on every run whatever VERIF_SEED is; on a tree where the property holds each of them passes
    corpus = []
    cdir = os.path.join(HOME, "corpus", prop)
    if os.path.isdir(cdir) and not a.facet:
        for fn in sorted(os.listdir(cdir)):
            if fn.endswith(".json"):
                try:
                    with open(os.path.join(cdir, fn)) as fh:
                        rep = json.load(fh)
                    if rep["facet"] in facets:
                        corpus.append((os.path.join("corpus", prop, fn), rep))
                except Exception:
                    pass
    n_gen = len(tasks)
    for rel, rep in corpus:
        tasks.append((prop, rep["facet"], 0, 1, tier, verif_seed, 1, rep["case"]))

    nproc = min(int(os.environ.get("VERIF_JOBS", "16")), max(1, len(tasks)))
    if nproc == 1 or os.environ.get("VERIF_INLINE"):
        results = [_run_shard(t) for t in tasks]
    else:
        ctx = mp.get_context("spawn")
        with ctx.Pool(nproc, maxtasksperchild=1) as pool:
            results = pool.map(_run_shard, tasks, chunksize=1)
    corpus_results = results[n_gen:]
    results = results[:n_gen]

    # ---- merge
    harness_errors = [r for r in results if r["harness_error"]]
    per_facet = {}
    for r in results:
        f = per_facet.setdefault(
            r["facet"],
            {
                "evaluations": 0,
                "nontrivial": set(),
                "classes": {},
                "residual_over_tol_max": {},
                "samples": [],
                "known_hits": {},
                "failures": [],
                "inconclusive": 0,
                "oracle_evals": 0,
                "wall_s": 0.0,
            },
        )
        f["evaluations"] += r["evaluations"]
        f["nontrivial"].update(r["nontrivial_hashes"])
        f["inconclusive"] += r["inconclusive"]
        f["oracle_evals"] += r["oracle_evals"]
        f["wall_s"] = max(f["wall_s"], r.get("wall_s", 0.0))
        f["slowest_case_s"] = max(f.get("slowest_case_s", 0.0), r.get("slowest_case_s", 0.0))
        for c, k in r["classes"].items():
            f["classes"][c] = f["classes"].get(c, 0) + k
        for o, v in r["residuals"].items():
            if v > f["residual_over_tol_max"].get(o, 0.0):
                f["residual_over_tol_max"][o] = v
        for kid, k in r["known_hits"].items():
            f["known_hits"][kid] = f["known_hits"].get(kid, 0) + k
        if len(f["samples"]) < 3:
            f["samples"].extend(r["samples"][: 3 - len(f["samples"])])
        if r["failure"]:
            f["failures"].append(r["failure"])
        if "enumerated_total" in r:
            f["enumerated_total"] = r["enumerated_total"]
            f["exhaustive"] = bool(r.get("enumeration_exhaustive", True)) and not r["failure"]

    violations = []
    seen_sig = set()
    for fname, f in per_facet.items():
        for fl in f["failures"]:
            sig = (fname, fl["oracle"])
            if sig in seen_sig:
                continue
            seen_sig.add(sig)
            rel = write_replay(prop, fname, fl)
            violations.append((fname, fl, rel))

    corpus_stats = {"replayed": 0, "stale": 0}
    for (rel, rep), res in zip(corpus, corpus_results):
        if res["harness_error"]:
            corpus_stats["stale"] += 1  # a saved input the current generators no longer describe: reported, never an alarm
            continue
        corpus_stats["replayed"] += 1
        if res["failure"]:
            sig = (rep["facet"], res["failure"]["oracle"])
            if sig not in seen_sig:
                seen_sig.add(sig)
                violations.append((rep["facet"], res["failure"], rel))

    # ---- known findings: replay each witness deterministically
    known_lines = []
    for k in known:
        w = k.get("witness")
        if not w or not os.path.exists(os.path.join(HOME, w)):
            if k.get("status") == "known":
                harness_errors.append({"harness_error": f"known finding {k.get('id')} has no witness file"})
            continue
        with open(os.path.join(HOME, w)) as fh:
            rep = json.load(fh)
        if rep["facet"] not in facets:
            harness_errors.append({"harness_error": f"witness {w} names unknown facet {rep['facet']}"})
            continue
        res = _run_shard((prop, rep["facet"], 0, 1, tier, verif_seed, 1, rep["case"]))
        if res["harness_error"]:
            harness_errors.append(res)
            continue
        if k.get("status") == "known":
            if res["known_hits"].get(k["id"]):
                known_lines.append(f"KNOWN-FINDING: property={prop} {k['id']} {k.get('what', '')}")
            elif res["failure"]:
                # the witness fails in a way the entry does not describe -> a different violation
                rel = write_replay(prop, rep["facet"], res["failure"])
                violations.append((rep["facet"], res["failure"], rel))
        else:  # fixed: suppresses nothing; the witness is a regression input
            per_facet.setdefault(rep["facet"], {"evaluations": 0}).setdefault("regression_witnesses", 0)
            per_facet[rep["facet"]]["regression_witnesses"] += 1
            if res["failure"]:
                violations.append((rep["facet"], res["failure"], w))

    wall = time.time() - t0
    evaluations = sum(f.get("evaluations", 0) for f in per_facet.values())
    distinct_nontrivial = sum(len(f.get("nontrivial", ())) for f in per_facet.values())
    samples = []
    for fname, f in per_facet.items():
        for s in f.get("samples", [])[:2]:
            samples.append({"facet": fname, "case": s})

    # vacuity guard: a facet that explored nothing non-trivial is a harness problem
    for fname in names:
        f = per_facet.get(fname)
        if f is None or harness_errors:
            continue
        min_nt = facets[fname].get("min_nontrivial", 1)
        if not f["failures"] and len(f["nontrivial"]) < min_nt:
            harness_errors.append(
                {"harness_error": f"facet {fname}: only {len(f['nontrivial'])} non-trivial cases (< {min_nt})"}
            )

    if not a.no_evidence and not a.facet:
        ev = {
            "property_id": prop,
            "tier": tier,
            "seed": verif_seed,
            "level": "exploration",
            "coverage": {
                "evaluations": int(evaluations),
                "distinct_nontrivial": int(distinct_nontrivial),
                "rule": getattr(module, "RULE", ""),
                "samples": samples[:12],
                "exhaustive": bool(per_facet) and all(f.get("exhaustive", False) for f in per_facet.values()),
                "facets": {
                    fname: {
                        "evaluations": f.get("evaluations", 0),
                        "distinct_nontrivial": len(f.get("nontrivial", ())),
                        "oracle_evaluations": f.get("oracle_evals", 0),
                        "inconclusive": f.get("inconclusive", 0),
                        "classes": dict(sorted(f.get("classes", {}).items())),
                        "max_residual_over_tolerance": {
                            o: round(v, 6) for o, v in sorted(f.get("residual_over_tol_max", {}).items())
                        },
                        "known_finding_hits_excluded": f.get("known_hits", {}),
                        "exhaustive": f.get("exhaustive", False),
                        "enumerated_total": f.get("enumerated_total"),
                        "regression_witnesses": f.get("regression_witnesses", 0),
                        "nontrivial_rule": facets.get(fname, {}).get("nontrivial", ""),
                        "wall_s": round(f.get("wall_s", 0.0), 2),
                        "slowest_case_s": round(f.get("slowest_case_s", 0.0), 2),
                    }
                    for fname, f in per_facet.items()
                },
            },
            "assumptions": list(getattr(module, "ASSUMPTIONS", []))
            + [
                "numpy/scipy LAPACK and harness/refmodel.py (pure numpy, no quara import) are the trusted base",
                "harness/shim/sitecustomize.py only restores the dead name scipy.linalg.kron",
            ],
            "wall_s": round(wall, 2),
            "regression_corpus": corpus_stats,
            "violations": len(violations),
        }
        os.makedirs(os.path.join(HOME, "evidence"), exist_ok=True)
        with open(os.path.join(HOME, "evidence", f"{prop}.json"), "w") as fh:
            json.dump(ev, fh, indent=1, sort_keys=True)

    for fname, f in per_facet.items():
        res_max = max(f.get("residual_over_tol_max", {}).values(), default=0.0)
        print(
            f"[{prop}/{fname}] evaluations={f.get('evaluations', 0)} nontrivial={len(f.get('nontrivial', ()))} "
            f"inconclusive={f.get('inconclusive', 0)} max_residual/tol={res_max:.3g} wall={f.get('wall_s', 0):.1f}s"
            + (f" known_hits={f['known_hits']}" if f.get("known_hits") else "")
        )
    if corpus:
        print(f"[{prop}/corpus] replayed={corpus_stats['replayed']} stale={corpus_stats['stale']}")
    for line in known_lines:
        print(line)
    if harness_errors:
        for h in harness_errors:
            print("HARNESS-ERROR:", h["harness_error"])
        if not violations:
            return 2
    if violations:
        for fname, fl, rel in violations:
            print(f"  violated oracle={fl['oracle']} facet={fname}: {fl['detail'][:600]}")
            print(f"VIOLATION property={prop} replay={rel}")
        return 1
    print(f"OK property={prop} tier={tier} seed={verif_seed} evaluations={evaluations} "
          f"distinct_nontrivial={distinct_nontrivial} wall={wall:.1f}s")
    return 0


if __name__ == "__main__":
    sys.exit(main())
