#!/usr/bin/env python3
"""tools/mark_fixed.py <finding-id> <commit> : move an entry from known_findings.d/*.json to known_findings.json as
status=fixed (suppresses nothing; witness renamed known-* -> fixed-* and replayed on every run)."""
import glob, json, os, sys
H = os.path.dirname(os.path.dirname(os.path.abspath(__file__)))
fid, commit = sys.argv[1], sys.argv[2]
main = json.load(open(H + "/known_findings.json"))
for path in glob.glob(H + "/known_findings.d/*.json"):
    d = json.load(open(path))
    keep = []
    for f in d["findings"]:
        if f["id"] != fid:
            keep.append(f)
            continue
        w = f.get("witness")
        if w and os.path.basename(w).startswith("known-") and os.path.exists(os.path.join(H, w)):
            nw = os.path.join(os.path.dirname(w), "fixed-" + os.path.basename(w)[len("known-"):])
            os.rename(os.path.join(H, w), os.path.join(H, nw))
            f["witness"] = nw
        f["status"] = "fixed"
        f["commit"] = commit
        f.pop("predicate", None)
        f["what"] = f"fixed: property={f['property']} {commit} " + f.get("what", "")
        main["findings"].append(f)
        print("moved", fid, "->", f["witness"])
    if keep:
        d["findings"] = keep
        json.dump(d, open(path, "w"), indent=1)
    elif len(keep) != len(json.load(open(path))["findings"]):
        os.remove(path)
json.dump(main, open(H + "/known_findings.json", "w"), indent=1)
