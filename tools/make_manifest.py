#!/usr/bin/env python3
"""Regenerates MANIFEST.json from the table below (keeps it valid at all times)."""
import json
import os

HERE = os.path.dirname(os.path.dirname(os.path.abspath(__file__)))

# property -> (technique, level text, level note, design ref)
CLAIMED = {
    "C01": (
        "property-based testing (Hypothesis): generated physical / physical+known-defect objects vs refmodel defect magnitudes with verdict margins; metamorphic atol monotonicity",
        "Generated-input search: for thousands of constructed objects per run (all four types, four shapes, all rank classes, defects from 1e-3*atol to O(1) in named directions, atol in [1e-13,1e-2], explicit and global) every verdict, the constructor behaviour, origin/zero objects and the basis-generic branches are compared with defect magnitudes recomputed by an independent numpy model. It cannot prove absence; it reaches the near-threshold and boundary region that fixed examples do not.",
        "Trusted base: numpy LAPACK (eigh/qr), harness/refmodel.py, the verdict-margin rule (verdicts only asserted when the defect is <= atol/10 or >= 10*atol, under both normalisation conventions).",
        "DESIGN.md section 6 C01",
    ),
}

NOT_YET = {}


def main():
    props = [json.loads(l) for l in open(os.path.join(HERE, "properties.jsonl"))]
    checks = []
    for p in props:
        pid = p["id"]
        if pid not in CLAIMED:
            continue
        tech, text, note, ref = CLAIMED[pid]
        checks.append(
            {
                "property_id": pid,
                "quick_cmd": f"./run_check.sh {pid} --tier quick",
                "thorough_cmd": f"./run_check.sh {pid} --tier thorough",
                "evidence_file": f"evidence/{pid}.json",
                "replay_cmd_template": f"./run_check.sh {pid} --replay {{path}}",
                "engine": "hypothesis-runner",
                "level_claimed": {"category": "exploration", "text": text, "design_ref": ref},
                "level_note": note,
                "technique": tech,
            }
        )
    na = []
    for p in props:
        if p["id"] not in CLAIMED:
            na.append(
                {
                    "property_id": p["id"],
                    "reason": NOT_YET.get(
                        p["id"],
                        "check not built yet in this round (the technique applies; see DESIGN.md section 6) - not claimed until its check exists and is quiet on the unchanged tree",
                    ),
                }
            )
    man = {
        "version": 1,
        "setup_cmd": "/venv/bin/python -c 'import hypothesis' 2>/dev/null || /venv/bin/pip install --no-index --find-links /opt/veriftools/wheels hypothesis",
        "hooks": {
            "guard": "QUARA_VERIF",
            "enable": "no source hooks are needed: checks import /repo's working tree directly (PYTHONPATH=/verif/harness/shim:/repo); run_check.sh exports QUARA_VERIF=1 for uniformity",
            "baseline_off_cmd": "cd /repo && /venv/bin/python -m pytest -ra -q -p no:cacheprovider --timeout=900 --continue-on-collection-errors",
            "source_commits": [],
            "add_only": True,
        },
        "engines": [
            {
                "name": "hypothesis-runner",
                "path": "harness/runner.py",
                "serves_properties": sorted(CLAIMED),
                "kind_free_text": "Hypothesis 6.168 property-based testing (generated cases, program/history cases, exhaustive enumerations) sharded over 16 processes, with an independent numpy reference model as oracle and JSON replay files",
            }
        ],
        "checks": checks,
        "not_applicable": na,
        "notes": "Repairs of genuine defects are 'fix:' commits in /repo listed in known_findings.json (status fixed); see DESIGN.md sections 4 and 8.",
    }
    with open(os.path.join(HERE, "MANIFEST.json"), "w") as f:
        json.dump(man, f, indent=1)
    print("claimed", sorted(CLAIMED), "not claimed", [x["property_id"] for x in na])


if __name__ == "__main__":
    main()
