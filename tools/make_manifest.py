#!/usr/bin/env python3
"""Regenerates MANIFEST.json: a property is claimed iff harness/checks/cXX.py exists and defines
TECHNIQUE / LEVEL_TEXT / LEVEL_NOTE (read with ast, nothing is imported) and is not listed in HOLD."""
import ast
import json
import os

HERE = os.path.dirname(os.path.dirname(os.path.abspath(__file__)))
HOLD = {}  # property -> reason it is deliberately not claimed although a module exists
# a property is claimed only once reviewed: listed in tools/ready.txt
READY = set(open(os.path.join(HERE, "tools", "ready.txt")).read().split())


def consts(path):
    tree = ast.parse(open(path).read())
    out = {}
    for node in tree.body:
        if isinstance(node, ast.Assign) and len(node.targets) == 1 and isinstance(node.targets[0], ast.Name):
            name = node.targets[0].id
            if name in ("TECHNIQUE", "LEVEL_TEXT", "LEVEL_NOTE", "NOT_APPLICABLE"):
                try:
                    out[name] = ast.literal_eval(node.value)
                except Exception:
                    pass
    return out


def main():
    props = [json.loads(l) for l in open(os.path.join(HERE, "properties.jsonl"))]
    checks, na, claimed = [], [], []
    for p in props:
        pid = p["id"]
        path = os.path.join(HERE, "harness", "checks", pid.lower() + ".py")
        c = consts(path) if os.path.exists(path) else {}
        if pid not in READY or pid in HOLD or not all(k in c for k in ("TECHNIQUE", "LEVEL_TEXT", "LEVEL_NOTE")):
            na.append({"property_id": pid, "reason": HOLD.get(pid, c.get("NOT_APPLICABLE",
                "check not built yet (the technique applies, see DESIGN.md section 6); not claimed until its check exists and is quiet on the unchanged tree"))})
            continue
        claimed.append(pid)
        checks.append({
            "property_id": pid,
            "quick_cmd": f"./run_check.sh {pid} --tier quick",
            "thorough_cmd": f"./run_check.sh {pid} --tier thorough",
            "evidence_file": f"evidence/{pid}.json",
            "replay_cmd_template": f"./run_check.sh {pid} --replay {{path}}",
            "engine": "hypothesis-runner",
            "level_claimed": {"category": "exploration", "text": c["LEVEL_TEXT"], "design_ref": f"DESIGN.md section 6 {pid}"},
            "level_note": c["LEVEL_NOTE"],
            "technique": c["TECHNIQUE"],
        })
    man = {
        "version": 1,
        "setup_cmd": "/venv/bin/python -c 'import hypothesis' 2>/dev/null || /venv/bin/pip install --no-index --find-links /opt/veriftools/wheels hypothesis",
        "hooks": {
            "guard": "QUARA_VERIF",
            "enable": "no source hooks are needed: checks import /repo's working tree directly (PYTHONPATH=/verif/harness/shim:/repo); run_check.sh exports QUARA_VERIF=1 for uniformity",
            "baseline_off_cmd": "cd /repo && /venv/bin/python -m pytest -ra -q -p no:cacheprovider --timeout=900 --continue-on-collection-errors",
            "source_commits": [],
            "add_only": True,
        },
        "engines": [{
            "name": "hypothesis-runner",
            "path": "harness/runner.py",
            "serves_properties": claimed,
            "kind_free_text": "Hypothesis 6.168 property-based testing (generated cases, program/history cases, exhaustive enumerations) sharded over 16 processes, with an independent numpy reference model as oracle and JSON replay files",
        }],
        "checks": checks,
        "not_applicable": na,
        "notes": "Repairs of genuine defects are 'fix:' commits in /repo listed in known_findings.json (status fixed); see DESIGN.md sections 4 and 8.",
    }
    with open(os.path.join(HERE, "MANIFEST.json"), "w") as f:
        json.dump(man, f, indent=1)
    print("claimed", claimed, "| not claimed", [x["property_id"] for x in na])


if __name__ == "__main__":
    main()
