#!/bin/bash
# tools/run_all.sh [tier] [seed...] : run every claimed check sequentially, one summary line each
TIER=${1:-quick}; shift
SEEDS=${@:-1}
cd /verif
for s in $SEEDS; do
  for p in $(cat tools/ready.txt); do
    t0=$(date +%s)
    out=$(VERIF_SEED=$s ./run_check.sh $p --tier $TIER --no-evidence 2>&1)
    rc=$?
    t1=$(date +%s)
    echo "seed=$s $p exit=$rc $((t1-t0))s $(echo "$out" | grep -E '^OK|VIOLATION|HARNESS' | head -3 | tr '\n' ' ' | cut -c1-200) known=$(echo "$out" | grep -c KNOWN-FINDING)"
  done
done
