#!/usr/bin/env python3
"""prints a markdown table of /verif/seeded/*/meta.json for DESIGN.md"""
import glob, json, os, re
H = os.path.dirname(os.path.dirname(os.path.abspath(__file__)))
print("| id | property | change (one line, from the sub-agent's README) | detected | first violated oracles |")
print("|---|---|---|---|---|")
for d in sorted(glob.glob(H + "/seeded/*")):
    m = json.load(open(d + "/meta.json"))
    diff = open(d + "/patch.diff").read()
    files = sorted(set(re.findall(r"^\+\+\+ b/(\S+)", diff, flags=re.M)))
    rd = open(d + "/README.md").read() if os.path.exists(d + "/README.md") else ""
    first = ""
    for line in rd.splitlines():
        l = line.strip()
        if l and not l.startswith("#") and len(l) > 40:
            first = l
            break
    first = re.sub(r"[|`*]", "", first)[:170]
    det = "yes" if m["check_result"]["detected"] else "NO"
    if m.get("history"):
        det += " (after strengthening)"
    print(f"| {os.path.basename(d)} | {m['property']} | {', '.join(os.path.basename(f) for f in files)}: {first} | {det} | {' '.join(m['check_result']['violated_oracles'][:2])} |")
