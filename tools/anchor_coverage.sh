#!/bin/bash
# tools/anchor_coverage.sh <Cxx> [scale] : run the quick check single-process under coverage.py and list the functions of
# the property's anchored files that no generated case executed (diagnostic for generator reach, not a check).
P=$1; SCALE=${2:-0.1}
mkdir -p /tmp/cov
cd /verif
export PYTHONPATH=/verif/harness/shim:/repo:/verif PYTHONHASHSEED=0 OMP_NUM_THREADS=1 OPENBLAS_NUM_THREADS=1 MKL_NUM_THREADS=1 QUARA_VERIF=1 PYTHONWARNINGS=ignore VERIF_INLINE=1
/venv/bin/python -m coverage run --data-file=/tmp/cov/$P.cov --include='/repo/quara/*' -m harness.runner $P --scale $SCALE --no-evidence > /tmp/cov/$P.log 2>&1
/venv/bin/python -m coverage json --data-file=/tmp/cov/$P.cov -o /tmp/cov/$P.json -q
/venv/bin/python - $P <<'PY'
import json,sys,ast
P=sys.argv[1]
prop=[json.loads(l) for l in open('/verif/properties.jsonl') if json.loads(l)['id']==P][0]
cov=json.load(open(f'/tmp/cov/{P}.json'))['files']
for f in prop['anchors']['files']:
    path='/repo/'+f
    ex=set(cov.get(path,{}).get('executed_lines',[]))
    try: tree=ast.parse(open(path).read())
    except Exception as e: print(f, 'parse error', e); continue
    missing=[]; tot=0
    for node in ast.walk(tree):
        if isinstance(node,(ast.FunctionDef,ast.AsyncFunctionDef)):
            body=[n.lineno for n in ast.walk(node) if hasattr(n,'lineno') and n.lineno>node.lineno]
            doc=ast.get_docstring(node)
            tot+=1
            if not any(l in ex for l in body):
                missing.append(node.name)
    print(f"{f}: {tot-len(missing)}/{tot} functions executed; never: {' '.join(missing)}")
PY
