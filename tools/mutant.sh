#!/bin/bash
# tools/mutant.sh <Cxx> <file-relative-to-quara-parent> <python-regex-old> <new> [extra run_check args]
# applies one textual mutant to a scratch copy of the package and runs the quick check against it.
set -u
PROP=$1; FILE=$2; OLD=$3; NEW=$4; shift 4
D=$(mktemp -d /tmp/mut_XXXXXX)
cp -r /repo/quara "$D/"
python3 - "$D/$FILE" "$OLD" "$NEW" <<'PY'
import sys,re
p,old,new=sys.argv[1:4]
s=open(p).read()
if old not in s: print("MUTANT-ERROR: pattern not found"); sys.exit(3)
s=s.replace(old,new,1)
open(p,'w').write(s)
PY
[ $? -eq 3 ] && { rm -rf "$D"; exit 3; }
VERIF_REPO="$D" /verif/run_check.sh "$PROP" --no-evidence "$@" > "$D/out.txt" 2>&1
rc=$?
grep -E "VIOLATION|HARNESS-ERROR|violated oracle|^OK" "$D/out.txt" | head -6
echo "exit=$rc"
rm -rf "$D"
# remove replay files written by the mutant run (keep known-/fixed- witnesses)
find /verif/replay/"$PROP" -type f ! -name 'known-*' ! -name 'fixed-*' -newer /verif/tools/mutant.sh -mmin -30 -delete 2>/dev/null
exit $rc
