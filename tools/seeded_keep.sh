#!/bin/bash
# tools/seeded_keep.sh <src-dir> <Cxx> <name> [extra run_check args] : verify and store under /verif/seeded/<name>/
SRC=$1; PROP=$2; NAME=$3; shift 3
RES=$(/verif/tools/seeded_verify.sh "$SRC" "$PROP" "$@" | tail -1)
echo "$RES"
D=/verif/seeded/$NAME; mkdir -p "$D"
cp "$SRC/patch.diff" "$SRC/demo.py" "$D/"; [ -f "$SRC/README.md" ] && cp "$SRC/README.md" "$D/README.md"
/venv/bin/python - "$D" "$PROP" "$RES" "$*" <<'PY'
import json,sys,os
d,prop,res,extra=sys.argv[1:5]
r=json.loads(res)
readme=open(os.path.join(d,'README.md')).read() if os.path.exists(os.path.join(d,'README.md')) else ''
meta={"property":prop,"needs_to_manifest":"see README.md (written by the independent sub-agent that produced the change)",
 "confirmed":{"demo_passes_on_unchanged_tree":r.get("demo_unpatched_exit")==0,"demo_fails_with_patch":r.get("demo_patched_exit")==1,
   "pinned_suite_with_patch":r.get("pinned_suite")},
 "what_was_run":"tools/seeded_verify.sh: scratch worktree of /repo HEAD outside /repo and /verif; demo unpatched; git apply patch.diff; pinned suite; demo patched; ./run_check.sh %s --no-evidence %s with VERIF_REPO=<worktree>; worktree removed"%(prop,extra),
 "check_result":{"exit":r.get("check_exit"),"detected":r.get("check_exit")==1,"violated_oracles":r.get("oracles","").split(),"harness_errors":r.get("harness_errors")}}
json.dump(meta,open(os.path.join(d,'meta.json'),'w'),indent=1)
PY
