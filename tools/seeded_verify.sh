#!/bin/bash
# tools/seeded_verify.sh <dir-with-patch.diff-and-demo.py> <Cxx> [extra run_check args]
# Confirms a seeded change in a scratch worktree of /repo (outside /repo and /verif) and runs the check against it:
#   1. demo passes on the unchanged tree, 2. patch applies, 3. pinned suite still passes (113),
#   4. demo fails with the patch, 5. ./run_check.sh <Cxx> against the patched tree (VERIF_REPO) -> expect exit 1.
# Prints a JSON summary line; removes the worktree afterwards.
set -u
SRC=$(realpath "$1"); PROP=$2; shift 2
WT=$(mktemp -d /tmp/seedverify_XXXXXX)
rmdir "$WT"
git -C /repo worktree add -q --detach "$WT" HEAD || exit 2
cleanup() { git -C /repo worktree remove --force "$WT" 2>/dev/null; rm -rf "$WT"; }
trap cleanup EXIT
run_demo() { (cd "$WT" && PYTHONPATH=/verif/harness/shim:"$WT" PYTHONDONTWRITEBYTECODE=1 timeout 1800 /venv/bin/python "$SRC/demo.py" >/dev/null 2>&1); echo $?; }
D0=$(run_demo)
if ! git -C "$WT" apply "$SRC/patch.diff" 2>/dev/null; then
  if ! git -C "$WT" apply --ignore-whitespace "$SRC/patch.diff" 2>/dev/null; then echo "{\"error\": \"patch does not apply\"}"; exit 2; fi
fi
PIN=$(cd "$WT" && timeout 1800 /venv/bin/python -m pytest -q -p no:cacheprovider --timeout=900 --continue-on-collection-errors 2>&1 | tail -1)
D1=$(run_demo)
OUT=$(mktemp)
VERIF_REPO="$WT" /verif/run_check.sh "$PROP" --no-evidence "$@" > "$OUT" 2>&1
RC=$?
ORACLES=$(grep -E "violated oracle" "$OUT" | sed -E 's/.*violated oracle=([^ ]+) facet=([^:]+):.*/\2:\1/' | sort -u | head -8 | tr '\n' ' ')
HERR=$(grep -c "HARNESS-ERROR" "$OUT")
echo "{\"property\": \"$PROP\", \"demo_unpatched_exit\": $D0, \"demo_patched_exit\": $D1, \"pinned_suite\": \"$PIN\", \"check_exit\": $RC, \"harness_errors\": $HERR, \"oracles\": \"$ORACLES\"}"
# the shrunk failing inputs of the patched run become regression-corpus entries (replayed by every later run)
mkdir -p /verif/corpus/"$PROP"
find /verif/replay/"$PROP" -type f ! -name 'known-*' ! -name 'fixed-*' -newer "$OUT" -exec mv {} /verif/corpus/"$PROP"/ \; 2>/dev/null
rm -f "$OUT"
