#!/usr/bin/env python3
"""Validate MANIFEST.json and evidence/*.json against the schemas (python3-vt has jsonschema)."""
import glob, json, sys, os
import jsonschema
H = os.path.dirname(os.path.dirname(os.path.abspath(__file__)))
ok = True
ms = json.load(open('/root/.vp/MANIFEST.schema.json'))
es = json.load(open('/root/.vp/EVIDENCE.schema.json'))
try:
    jsonschema.validate(json.load(open(H + '/MANIFEST.json')), ms); print('MANIFEST ok')
except Exception as e:
    ok = False; print('MANIFEST INVALID', e)
for f in sorted(glob.glob(H + '/evidence/*.json')):
    try:
        jsonschema.validate(json.load(open(f)), es); print(os.path.basename(f), 'ok')
    except Exception as e:
        ok = False; print(f, 'INVALID', str(e)[:300])
sys.exit(0 if ok else 1)
