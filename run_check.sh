#!/bin/bash
# Entry point registered in MANIFEST.json.
#   run_check.sh <Cxx> [--tier quick|thorough] [--replay <path>] [--facet <name>]
# exit 0 = property held on everything explored; 1 = VIOLATION line printed; 2 = harness error.
HERE="$(cd "$(dirname "${BASH_SOURCE[0]}")" && pwd)"
cd "$HERE" || exit 2
REPO="${VERIF_REPO:-/repo}"
export PYTHONPATH="$HERE/harness/shim:$REPO:$HERE${VERIF_EXTRA_PATH:+:$VERIF_EXTRA_PATH}"
export PYTHONHASHSEED=0
export PYTHONDONTWRITEBYTECODE=1
export OMP_NUM_THREADS=1 OPENBLAS_NUM_THREADS=1 MKL_NUM_THREADS=1 NUMEXPR_NUM_THREADS=1
export QUARA_VERIF=1
export PYTHONWARNINGS="ignore::SyntaxWarning"
export VERIF_HOME="$HERE"
PY="${VERIF_PYTHON:-/venv/bin/python}"
exec "$PY" -m harness.runner "$@"
